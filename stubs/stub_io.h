/* formatting/logging have empty bodies (formatting is not the subject of any property) */
#ifndef STUB_IO_H
#define STUB_IO_H
#include <stdio.h>
#include <stdarg.h>
int snprintf(char *s, size_t n, const char *f, ...) { if (n) s[0] = 0; return 0; }
int fprintf(FILE *f, const char *fmt, ...) { return 0; }
int fflush(FILE *f) { return 0; }
#endif
