/* pthread mutex/cond model for single-threaded symbolic execution (one mutex/cond pair per harness).
 * mutex = ghost owner word, asserted "free at lock" / "held at unlock"; cond_signal/broadcast are counted;
 * cond_(timed)wait requires the mutex, runs the environment hook while it is released, may return spuriously. */
#ifndef STUB_PTHREAD_H
#define STUB_PTHREAD_H
#include <pthread.h>
#include <errno.h>
int nondet_int(void);
static int vr_mutex_owner, vr_cond_signals, vr_cond_broadcasts, vr_cond_waits;
static void (*vr_cond_wait_hook)(void);
int pthread_mutex_init(pthread_mutex_t *m, const pthread_mutexattr_t *a) { return 0; }
int pthread_mutex_destroy(pthread_mutex_t *m) { return 0; }
int pthread_mutex_lock(pthread_mutex_t *m) {
#ifdef VR_MUTEX_OTHER_BLOCKS
    __CPROVER_assume(vr_mutex_owner != 2); /* held by another stream: this caller blocks */
#endif
    __CPROVER_assert(vr_mutex_owner == 0, "pthread mutex: lock while already held (self-deadlock)"); vr_mutex_owner = 1; return 0; }
int pthread_mutex_unlock(pthread_mutex_t *m) { __CPROVER_assert(vr_mutex_owner == 1, "pthread mutex: unlock without holding"); vr_mutex_owner = 0; return 0; }
int pthread_cond_init(pthread_cond_t *c, const pthread_condattr_t *a) { return 0; }
int pthread_cond_destroy(pthread_cond_t *c) { return 0; }
int pthread_cond_signal(pthread_cond_t *c) { vr_cond_signals++; return 0; }
int pthread_cond_broadcast(pthread_cond_t *c) { vr_cond_broadcasts++; return 0; }
static int vr_cond_wait_common(void)
{
    __CPROVER_assert(vr_mutex_owner == 1, "pthread cond wait without holding the mutex");
    vr_cond_waits++;
    vr_mutex_owner = 0;
    if (vr_cond_wait_hook) vr_cond_wait_hook();
    vr_mutex_owner = 1;
    return nondet_int() ? ETIMEDOUT : 0;
}
int pthread_cond_wait(pthread_cond_t *c, pthread_mutex_t *m) { vr_cond_wait_common(); return 0; }
int pthread_cond_timedwait(pthread_cond_t *c, pthread_mutex_t *m, const struct timespec *ts) { return vr_cond_wait_common(); }
#endif
