/* byte-loop models of memcpy/memset/memcmp: cbmc's built-in array_copy/array_set models make the SAT instance explode
 * (1.5 M variables for one 8-byte copy) when the size reaches them through the heap.  Loops are bounded with
 * --unwindset memcpy.0:N,memset.0:N (+ unwinding assertions). */
#ifndef VR_MEM_H
#define VR_MEM_H
#include <stddef.h>
void *memcpy(void *d, const void *s, size_t n)
{
    for (size_t i = 0; i < n; i++) ((char *)d)[i] = ((const char *)s)[i];
    return d;
}
void *memset(void *d, int c, size_t n)
{
    for (size_t i = 0; i < n; i++) ((char *)d)[i] = (char)c;
    return d;
}
#endif
