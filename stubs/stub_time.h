/* virtual clock: every reading is a solver-chosen, non-decreasing value; after VR_CLOCK_FREE readings time is forced to
 * advance by VR_CLOCK_JUMP per reading (progress assumption, so that polling loops are bounded). */
#ifndef STUB_TIME_H
#define STUB_TIME_H
#include <time.h>
double nondet_double(void);
#ifndef VR_CLOCK_FREE
#define VR_CLOCK_FREE 2
#endif
#ifndef VR_CLOCK_JUMP
#define VR_CLOCK_JUMP 1.0e7
#endif
static double vr_now; static int vr_clock_reads, vr_sleeps;
static void (*vr_sleep_hook)(void);
static double vr_clock(void)
{
    double t;
    if (vr_clock_reads < VR_CLOCK_FREE) { t = nondet_double(); __CPROVER_assume(t >= vr_now && t <= 1.0e9); }
    else t = vr_now + VR_CLOCK_JUMP;
    vr_clock_reads++; vr_now = t;
    return t;
}
/* the two functions behind ABTI_get_wtime() (src/arch/abtd_time.c) */
void ABTD_time_get(ABTD_time *p_time) { double t = vr_clock(); p_time->tv_sec = (time_t)vr_clock_reads; p_time->tv_nsec = 0; (void)t; }
double ABTD_time_read_sec(ABTD_time *p_time) { return vr_now; }
int clock_gettime(clockid_t c, struct timespec *ts) { double t = vr_clock(); ts->tv_sec = (time_t)t; ts->tv_nsec = 0; return 0; }
int nanosleep(const struct timespec *a, struct timespec *b) { vr_sleeps++; if (vr_sleep_hook) vr_sleep_hook(); return 0; }
#endif
