/* force-included into every real translation unit of a scheduling-point (E2) obligation:
 * every atomic builtin executed by the real code becomes a scheduling point (vr_sp) at which the solver may let other
 * agents perform complete real operations.  The self-referential macros are legal C (no recursive expansion). */
#ifndef VR_HOOKS_H
#define VR_HOOKS_H
void vr_sp(void);
#ifndef VR_SP_LOCKS_ONLY
/* (with -DVR_SP_LOCKS_ONLY only read-modify-write operations -- lock acquisitions, CAS -- are scheduling points: the
 * classic check-then-lock windows; used where the full set makes the encoding intractable, stated in the evidence) */
#define __atomic_load_n(p, m) (vr_sp(), __atomic_load_n(p, m))
#define __atomic_store_n(p, v, m) (vr_sp(), __atomic_store_n(p, v, m))
#define __atomic_clear(p, m) (vr_sp(), __atomic_clear(p, m))
#endif
#define __atomic_exchange_n(p, v, m) (vr_sp(), __atomic_exchange_n(p, v, m))
#define __atomic_compare_exchange_n(p, e, d, w, s, f) (vr_sp(), __atomic_compare_exchange_n(p, e, d, w, s, f))
#define __atomic_fetch_add(p, v, m) (vr_sp(), __atomic_fetch_add(p, v, m))
#define __atomic_fetch_sub(p, v, m) (vr_sp(), __atomic_fetch_sub(p, v, m))
#define __atomic_fetch_and(p, v, m) (vr_sp(), __atomic_fetch_and(p, v, m))
#define __atomic_fetch_or(p, v, m) (vr_sp(), __atomic_fetch_or(p, v, m))
#define __atomic_fetch_xor(p, v, m) (vr_sp(), __atomic_fetch_xor(p, v, m))
#define __atomic_test_and_set(p, m) (vr_sp(), __atomic_test_and_set(p, m))
#endif
/* the futex syscall: split by operation at the call site (constant), so that the model has no syntactic recursion
 * (a sleeping waiter runs environment steps whose unlock calls FUTEX_WAKE) */
#ifndef VR_HOOKS_FUTEX
#define VR_HOOKS_FUTEX
#include <unistd.h>
#include <linux/futex.h>
#include <sys/syscall.h>
long vr_futex_wake(int *addr);
long vr_futex_wait(int *addr, int val, const void *ts);
#define syscall(nr, addr, op, val, ts, a2, v3) (((op) == FUTEX_WAKE_PRIVATE) ? vr_futex_wake(addr) : vr_futex_wait((addr), (val), (ts)))
#endif
/* polling loops of the real .c files: with -DVR_HOOK_PAUSE every ABTD_atomic_pause() written in a .c file becomes the harness
 * hook vr_pause() (the inline functions of the headers keep the real pause).  abti.h is included here, after the atomic
 * macros, so that the macro below only affects the code that follows the header. */
#ifdef VR_HOOK_PAUSE
#include "abti.h"
void vr_pause(void);
#define ABTD_atomic_pause() vr_pause()
#endif

