"""Core of the solver-based checking framework for pmodels/argobots.

An *obligation* is one CBMC run (or one SMT script of the asm engine) over a harness that is compiled
together with the real translation units taken from /repo's current working tree on every run.
All cbmc properties of a run must be SUCCESS, except the ones whose description starts with
"WITNESS" -- these are reachability witnesses and must be FAILURE (vacuity guard, same solver run).
"""
import json, os, re, subprocess, sys, time, hashlib, resource, shutil, concurrent.futures as cf

VERIF = os.path.dirname(os.path.dirname(os.path.abspath(__file__)))
REPO = os.environ.get("VERIF_REPO", "/repo")
CACHE = os.environ.get("VERIF_CACHE") or os.path.join(VERIF, ".cache")
OUT = os.environ.get("VERIF_OUT") or os.path.join(VERIF, "out")
GUARD = "PMODELS_ARGOBOTS_VERIF"

INC = ["-I%s/src/include" % REPO, "-I%s/src" % REPO, "-I%s/src/pool" % REPO,
       "-I%s/harness" % VERIF, "-I%s/stubs" % VERIF, "-DHAVE_CONFIG_H", "-D" + GUARD]

STD_CHECKS = ["--slice-formula", "--pointer-overflow-check", "--undefined-shift-check", "--signed-overflow-check",
              "--drop-unused-functions", "--no-malloc-may-fail"]


class Obl:
    """One obligation."""

    def __init__(self, name, harness, desc, real=(), defs=(), unwind=None, unwindset=(), flags=(),
                 tiers=("quick", "thorough"), timeout=None, mem_gb=None, entry="main", encodes=(),
                 bounds="", symbolic="", hooks=False, kind="cbmc", pyfunc=None, no_std=(),
                 backend=None, object_bits=None, twin_defs=None, cut_loops=(), allow_nobody=(), remove_bodies=(), restrict_fp=()):
        self.name = name
        self.harness = harness          # path relative to /verif/harness
        self.desc = desc
        self.real = list(real)          # repo-relative .c files linked as separate real TUs
        self.defs = list(defs)
        self.unwind = unwind
        self.unwindset = list(unwindset)
        self.flags = list(flags)
        self.tiers = tiers
        self.timeout = timeout
        self.mem_gb = mem_gb
        self.entry = entry
        self.encodes = list(encodes)    # names of real functions this obligation is about (documentation + existence check)
        self.bounds = bounds
        self.symbolic = symbolic
        self.hooks = hooks              # force-include stubs/vr_hooks.h into the real TUs (engine E2)
        self.kind = kind
        self.pyfunc = pyfunc
        self.no_std = list(no_std)
        self.backend = backend
        self.object_bits = object_bits
        self.cut_loops = list(cut_loops)  # spin loops cut by an unwinding ASSUMPTION (goto-instrument), listed in the evidence
        self.allow_nobody = list(allow_nobody)
        self.remove_bodies = list(remove_bodies)  # functions whose bodies are dropped (must then be unreachable: cbmc's no-body property)
        self.restrict_fp = list(restrict_fp)  # ("function.function_pointer_call.N", [targets]): goto-instrument --restrict-function-pointer; cbmc then ASSERTS that the pointer is one of the targets
        self.twin_defs = twin_defs      # extra -D for a reachability twin (second build + run); its WITNESS must be reached


def sh(cmd, timeout=None, mem_gb=None, cwd=None):
    def lim():
        if mem_gb:
            b = int(mem_gb * (1 << 30))
            resource.setrlimit(resource.RLIMIT_AS, (b, b))
        os.setsid()
    t0 = time.time()
    try:
        p = subprocess.Popen(cmd, stdout=subprocess.PIPE, stderr=subprocess.STDOUT, preexec_fn=lim, cwd=cwd)
        try:
            out, _ = p.communicate(timeout=timeout)
            rc = p.returncode
        except subprocess.TimeoutExpired:
            try:
                os.killpg(p.pid, 9)
            except Exception:
                pass
            out, _ = p.communicate()
            rc = -999
    except Exception as e:  # pragma: no cover
        return -998, str(e), time.time() - t0
    return rc, out.decode("utf-8", "replace"), time.time() - t0


def ensure_config():
    """abt_config.h / abt.h are generated files; they must exist in /repo/src/include."""
    need = [os.path.join(REPO, "src/include/abt_config.h"), os.path.join(REPO, "src/include/abt.h")]
    if all(os.path.exists(p) for p in need):
        return
    # regenerate in place with the repository's own configure (same as the normal build does)
    if os.path.exists(os.path.join(REPO, "config.status")):
        sh(["sh", "./config.status"], cwd=REPO, timeout=300)
    elif os.path.exists(os.path.join(REPO, "configure")):
        sh(["sh", "./configure"], cwd=REPO, timeout=600)
    if not all(os.path.exists(p) for p in need):
        raise SystemExit("cannot find or regenerate %s" % need)


def config_defines():
    d = {}
    for l in open(os.path.join(REPO, "src/include/abt_config.h")):
        m = re.match(r"#define\s+(\w+)\s*(.*)", l)
        if m:
            d[m.group(1)] = m.group(2).strip()
    return d


def build(prop, o, workdir):
    """goto-cc the harness and the real TUs from /repo's current sources.  Returns (gb path|None, log)."""
    os.makedirs(workdir, exist_ok=True)
    gbs = []
    log = ""
    hpath = os.path.join(VERIF, "harness", o.harness)
    defs = ["-D" + d for d in o.defs]
    hb = os.path.join(workdir, o.name + ".h.gb")
    cmd = ["goto-cc"] + INC + defs + ["-c", hpath, "-o", hb]
    rc, out, _ = sh(cmd, timeout=300)
    log += " ".join(cmd) + "\n" + out
    if rc != 0:
        return None, log
    gbs.append(hb)
    for i, r in enumerate(o.real):
        rb = os.path.join(workdir, "%s.r%d.gb" % (o.name, i))
        cmd = ["goto-cc"] + INC + defs
        if o.hooks:
            cmd += ["-include", os.path.join(VERIF, "stubs", "vr_hooks.h")]
        cmd += ["-c", os.path.join(REPO, r), "-o", rb]
        rc, out, _ = sh(cmd, timeout=300)
        log += " ".join(cmd) + "\n" + out
        if rc != 0:
            return None, log
        gbs.append(rb)
    gb = os.path.join(workdir, o.name + ".gb")
    cmd = ["goto-cc"] + gbs + ["-o", gb]
    rc, out, _ = sh(cmd, timeout=300)
    log += " ".join(cmd) + "\n" + out
    if rc != 0:
        return None, log
    if o.remove_bodies:
        gb1 = os.path.join(workdir, o.name + ".rm.gb")
        cmd = ["goto-instrument"] + [x for f in o.remove_bodies for x in ("--remove-function-body", f)] + [gb, gb1]
        rc, out, _ = sh(cmd, timeout=300)
        log += " ".join(cmd) + "\n" + out[-2000:]
        if rc != 0:
            return None, log
        gb = gb1
    if o.restrict_fp:
        gb1 = os.path.join(workdir, o.name + ".fp.gb")
        cmd = ["goto-instrument"] + [x for (site, tg) in o.restrict_fp for x in ("--restrict-function-pointer", "%s/%s" % (site, ",".join(tg)))] + [gb, gb1]
        rc, out, _ = sh(cmd, timeout=300)
        log += " ".join(cmd) + "\n" + out[-2000:]
        if rc != 0:
            return None, log
        gb = gb1
    # static inline functions that occur in several TUs are renamed fn$link1, fn$link2, ... by the linker: apply loop
    # bounds to every copy
    rc, out, _ = sh(["goto-instrument", "--show-loops", gb], timeout=120)
    allloops = re.findall(r"^Loop (\S+):", out, re.M)
    loopinfo = re.findall(r"^Loop (\S+):\n\s+file (\S+) line (\d+) function (\S+)", out, re.M)
    def srcline(f, n):
        try:
            return open(f).read().splitlines()[int(n) - 1]
        except Exception:
            return ""
    def expand(spec):
        if "@" in spec:
            # "function@regex[:bound]": every loop of that function whose source line matches the regex (robust against renumbering)
            fn, rx = spec.split("@", 1)
            rest = ""
            m = re.search(r":(\d+)$", rx)
            if m:
                rest = ":" + m.group(1); rx = rx[:m.start()]
            hits = [l + rest for (l, f, n, func) in loopinfo if (func == fn or func.startswith(fn + "$link")) and re.search(rx, srcline(f, n))]
            return hits or [fn + ".0" + rest]

        base = spec.split(":")[0]; rest = spec[len(base):]
        fn, idx = base.rsplit(".", 1)
        return [l + rest for l in allloops if l == base or (l.startswith(fn + "$link") and l.endswith("." + idx))] or [spec]
    o._unwindset_expanded = [x for sp in o.unwindset for x in expand(sp)]
    if o.cut_loops:
        gb2 = os.path.join(workdir, o.name + ".cut.gb")
        cuts = [x for sp in o.cut_loops for x in expand(sp)]
        cmd = ["goto-instrument", "--unwindset", ",".join(l if re.search(r":\d+$", l) else "%s:2" % l for l in cuts), "--no-unwinding-assertions", gb, gb2]
        rc, out, _ = sh(cmd, timeout=300)
        log += " ".join(cmd) + "\n" + out[-2000:]
        if rc != 0:
            return None, log
        gb = gb2
    return gb, log


def deepen(obls, tier, names=None, extra_defs=("VR_MAXDEPTH=2",), suffix="_depth2", timeout=900, object_bits=14, mem_gb=14):
    """thorough tier: copies of scheduling-point obligations with a deeper bound (default: environment operations may
    themselves be preempted once: nesting depth 2)."""
    import copy
    if tier != "thorough":
        return []
    out = []
    for o in obls:
        if names is not None and o.name not in names:
            continue
        d = copy.copy(o)
        d.name = o.name + suffix
        d.defs = [x for x in o.defs if not any(x.split("=")[0] == e.split("=")[0] for e in extra_defs)] + list(extra_defs)
        d.timeout = timeout; d.object_bits = max(object_bits, o.object_bits or 0); d.mem_gb = mem_gb
        d.tiers = ("thorough",)
        d.desc = o.desc + "  [deeper bound: " + ", ".join(extra_defs) + "]"
        d.bounds = (o.bounds + "; " if o.bounds else "") + ", ".join(extra_defs)
        out.append(d)
    return out


RES_RE = re.compile(r"^\[(\S+)\] (.*): (SUCCESS|FAILURE|UNKNOWN|ERROR)\s*$")


def cbmc_cmd(o, gb, extra=()):
    cmd = ["cbmc", gb]
    if o.entry != "main":
        cmd += ["--function", o.entry]
    std = [f for f in STD_CHECKS if f not in o.no_std]
    cmd += std
    if o.unwind is not None:
        cmd += ["--unwind", str(o.unwind)]
    uws = getattr(o, "_unwindset_expanded", None) or o.unwindset
    if uws:
        cmd += ["--unwindset", ",".join(uws)]
    if o.object_bits:
        cmd += ["--object-bits", str(o.object_bits)]
    if o.backend == "cadical":
        cmd += ["--sat-solver", "cadical"]
    elif o.backend == "kissat":
        cmd += ["--external-sat-solver", "kissat"]
    elif o.backend == "z3":
        cmd += ["--z3"]
    cmd += ["--verbosity", "8"] + list(o.flags) + list(extra)
    return cmd


def parse_cbmc(out):
    props = []
    for l in out.splitlines():
        m = RES_RE.match(l)
        if m:
            props.append((m.group(1), re.sub(r"^line \d+ ", "", m.group(2)), m.group(3)))
    verdict = None
    if "VERIFICATION SUCCESSFUL" in out:
        verdict = "SUCCESSFUL"
    elif "VERIFICATION FAILED" in out:
        verdict = "FAILED"
    st = {}
    m = re.search(r"Runtime decision procedure: ([\d.]+)s", out)
    st["solver_s"] = sum(float(x) for x in re.findall(r"Runtime decision procedure: ([\d.]+)s", out))
    st["symex_s"] = sum(float(x) for x in re.findall(r"Runtime Symex: ([\d.]+)s", out))
    m = re.search(r"(\d+) variables, (\d+) clauses", out)
    if m:
        st["sat_vars"], st["sat_clauses"] = int(m.group(1)), int(m.group(2))
    m = re.search(r"size of program expression: (\d+) steps", out)
    if m:
        st["program_steps"] = int(m.group(1))
    m = re.search(r"Generated (\d+) VCC\(s\), (\d+) remaining after simplification", out)
    if m:
        st["vccs"], st["vccs_remaining"] = int(m.group(1)), int(m.group(2))
    return verdict, props, st


def reachable_functions(gb, entry):
    """names of functions with bodies reachable from the entry point (what the encoding contains)."""
    rc, out, _ = sh(["goto-instrument", "--reachable-call-graph", gb] + ([] if entry == "main" else []), timeout=120)
    fns = set()
    for l in out.splitlines():
        m = re.match(r"^(\S+) -> (\S+)$", l.strip())
        if m:
            fns.add(m.group(1)); fns.add(m.group(2))
    return sorted(f for f in fns if not f.startswith("__CPROVER"))


def _run_one(prop, o, tier, workdir):
    """returns a result dict"""
    r = {"name": o.name, "desc": o.desc, "bounds": o.bounds, "symbolic": o.symbolic, "encodes": o.encodes,
         "status": "INCONCLUSIVE", "why": "", "props": 0, "props_ok": 0, "witnesses": 0, "witnesses_reached": 0,
         "failed": [], "solver_s": 0.0, "wall_s": 0.0, "cmd": "", "functions": []}
    t0 = time.time()
    if o.kind == "py":
        try:
            res = o.pyfunc(o, tier, workdir)
            r.update(res)
        except Exception as e:
            import traceback
            r["why"] = "engine error: %s\n%s" % (e, traceback.format_exc())
        r["wall_s"] = round(time.time() - t0, 2)
        return r
    gb, blog = build(prop, o, workdir)
    if gb is None:
        r["why"] = "build failed:\n" + blog[-3000:]
        r["status"] = "BUILD_ERROR"
        r["wall_s"] = round(time.time() - t0, 2)
        return r
    # generous caps: a time-out is INCONCLUSIVE (never a pass), so caps only bound how long a hung solver is waited for; the
    # machine that re-runs the checks may be slower or busier than the one they were tuned on (seen: 180 s here, >280 s there)
    timeout = max(o.timeout or 0, 1200 if tier == "quick" else 3000)
    mem = max(o.mem_gb or 0, 10 if tier == "quick" else 16)
    cmd = cbmc_cmd(o, gb)
    r["cmd"] = " ".join(cmd).replace(workdir + "/", "")
    rc, out, wall = sh(cmd, timeout=timeout, mem_gb=mem)
    with open(os.path.join(workdir, o.name + ".log"), "w") as f:
        f.write(" ".join(cmd) + "\n" + out)
    if rc == -999:
        r["why"] = "timeout after %ds" % timeout
        r["wall_s"] = round(time.time() - t0, 2)
        return r
    verdict, props, st = parse_cbmc(out)
    r.update(st)
    # cbmc 6 turns every call to a function without a body into a property "no body for callee X" (SUCCESS = unreachable)
    nobody = sorted(set(p[1].split()[-1] for p in props if ".no-body." in p[0] and p[2] != "SUCCESS" and p[1].split()[-1] not in o.allow_nobody))
    props = [p for p in props if not (".no-body." in p[0] and p[2] != "SUCCESS")]
    r["no_body"] = nobody
    if verdict is None or not props:
        if verdict == "SUCCESSFUL" and not props:
            r["why"] = "no properties generated"
        else:
            r["why"] = "cbmc gave no verdict (rc=%d): %s" % (rc, out[-1500:])
        r["wall_s"] = round(time.time() - t0, 2)
        return r
    wit = [p for p in props if p[1].startswith("WITNESS")]
    real = [p for p in props if not p[1].startswith("WITNESS")]
    r["props"] = len(real)
    r["props_ok"] = sum(1 for p in real if p[2] == "SUCCESS")
    r["witnesses"] = len(wit)
    r["witnesses_reached"] = sum(1 for p in wit if p[2] == "FAILURE")
    bad = [p for p in real if p[2] != "SUCCESS"]
    if nobody and not bad:
        r["status"] = "INCONCLUSIVE"; r["why"] = "reachable functions without a body (would be havoc'ed silently): " + ", ".join(nobody)
        r["wall_s"] = round(time.time() - t0, 2)
        return r
    unre = [p for p in wit if p[2] != "FAILURE"]
    r["functions"] = [f for f in reachable_functions(gb, o.entry)]
    if bad:
        r["status"] = "FAILURE"
        r["failed"] = [{"id": p[0], "desc": p[1]} for p in bad]
        # fetch the counterexample for the first failing property
        cmd2 = cbmc_cmd(o, gb, ["--property", bad[0][0], "--trace"])
        rc2, out2, _ = sh(cmd2, timeout=timeout, mem_gb=mem)
        r["trace"] = out2
    elif unre:
        r["status"] = "VACUOUS"
        r["why"] = "witness not reached: " + "; ".join(p[1] for p in unre)
    elif not wit:
        r["status"] = "VACUOUS"
        r["why"] = "harness has no reachability witness"
    else:
        r["status"] = "SUCCESS"
    r["wall_s"] = round(time.time() - t0, 2)
    return r


def run_obligation(prop, o, tier, workdir):
    r = _run_one(prop, o, tier, workdir)
    if not o.twin_defs or r["status"] not in ("SUCCESS", "VACUOUS"):
        return r
    import copy
    t = copy.copy(o)
    t.name = o.name + "__twin"; t.defs = o.defs + list(o.twin_defs); t.twin_defs = None
    rt = _run_one(prop, t, tier, workdir)
    # merge: all real properties of both runs must hold; witnesses of either run count
    for k in ("props", "props_ok", "witnesses", "witnesses_reached", "solver_s", "symex_s", "wall_s"):
        r[k] = r.get(k, 0) + rt.get(k, 0)
    r["cmd"] += "  ||  twin(-D" + ",-D".join(o.twin_defs) + ")"
    if rt["status"] == "FAILURE":
        r["status"] = "FAILURE"; r["failed"] = rt["failed"]; r["trace"] = rt.get("trace", "")
    elif rt["status"] != "SUCCESS":
        r["status"] = rt["status"]; r["why"] = "twin: " + rt["why"]
    elif r["status"] == "VACUOUS" and r["witnesses"] > 0 and r["witnesses_reached"] == r["witnesses"]:
        r["status"] = "SUCCESS"; r["why"] = ""
    elif r["status"] == "VACUOUS" and "no reachability witness" in r["why"]:
        r["status"] = "SUCCESS"; r["why"] = ""
    return r


def load_known():
    kf = {"finding": [], "fixed": []}
    p = os.path.join(VERIF, "known_findings.txt")
    if os.path.exists(p):
        for l in open(p):
            l = l.strip()
            if not l or l.startswith("#"):
                continue
            m = re.match(r"(finding|fixed):\s*property=(\S+)\s+(.*)", l)
            if m:
                kf[m.group(1)].append({"property": m.group(2), "text": m.group(3)})
    return kf


def run_property(prop, mod, tier, only=None, jobs=None):
    ensure_config()
    t0 = time.time()
    seed = int(os.environ.get("VERIF_SEED", "0") or 0)
    workdir = os.path.join(CACHE, prop)
    shutil.rmtree(workdir, ignore_errors=True)
    os.makedirs(workdir, exist_ok=True)
    os.makedirs(os.path.join(OUT, "replay"), exist_ok=True)
    os.makedirs(os.path.join(VERIF, "evidence"), exist_ok=True)
    obls = mod.obligations(tier) if callable(getattr(mod, "obligations", None)) else mod.OBLIGATIONS
    obls = [o for o in obls if tier in o.tiers]
    if only:
        obls = [o for o in obls if any(re.search(x, o.name) for x in only)]
    pre = getattr(mod, "precheck", None)
    pre_msgs = []
    if pre:
        pre_msgs = pre(tier) or []
    jobs = jobs or int(os.environ.get("VERIF_JOBS", "0") or 0) or min(16, os.cpu_count() or 4)
    results = []
    with cf.ThreadPoolExecutor(max_workers=jobs) as ex:
        futs = {ex.submit(run_obligation, prop, o, tier, workdir): o for o in obls}
        for f in cf.as_completed(futs):
            r = f.result()
            results.append(r)
            sys.stderr.write("  [%s] %-40s %-12s props %d/%d wit %d/%d  %.1fs solver %.1fs %s\n" % (
                prop, r["name"], r["status"], r["props_ok"], r["props"], r["witnesses_reached"], r["witnesses"],
                r["wall_s"], r.get("solver_s", 0), (r["why"][:200] if r["status"] != "SUCCESS" else "")))
    order = {o.name: i for i, o in enumerate(obls)}
    results.sort(key=lambda r: order[r["name"]])
    violations = 0
    broken = 0
    lines = []
    for m in pre_msgs:
        # precheck failure = fail-closed structural audit of the sources
        violations += 1
        rp = os.path.join(OUT, "replay", "%s_precheck.txt" % prop)
        open(rp, "w").write(m + "\n")
        lines.append("VIOLATION property=%s replay=%s" % (prop, rp))
        sys.stderr.write("  [%s] precheck: %s\n" % (prop, m))
    for r in results:
        if r["status"] == "FAILURE":
            violations += 1
            rp = os.path.join(OUT, "replay", "%s_%s.txt" % (prop, r["name"]))
            with open(rp, "w") as f:
                f.write("property=%s obligation=%s tier=%s\n%s\nfailed assertions:\n" % (prop, r["name"], tier, r["desc"]))
                for x in r["failed"]:
                    f.write("  %s: %s\n" % (x["id"], x["desc"]))
                f.write("\ncommand: %s\n\n--- counterexample (cbmc --trace) ---\n%s\n" % (r["cmd"], r.get("trace", "")))
            nat = getattr(mod, "native_replay", None)
            if nat:
                try:
                    msg = nat(r, rp)
                    if msg:
                        open(rp, "a").write("\n--- native replay ---\n" + msg + "\n")
                except Exception as e:
                    open(rp, "a").write("\n--- native replay failed to run: %s\n" % e)
            lines.append("VIOLATION property=%s replay=%s" % (prop, rp))
        elif r["status"] != "SUCCESS":
            broken += 1
    wall = time.time() - t0
    ok = [r for r in results if r["status"] == "SUCCESS"]
    nprops = sum(r["props"] for r in results)
    nok = sum(r["props_ok"] for r in results)
    fnset = sorted(set(f for r in results for f in r.get("functions", [])))
    meta = getattr(mod, "META", {})
    samples = []
    for r in results[:60]:
        samples.append({"obligation": r["name"], "what": r["desc"], "symbolic": r["symbolic"], "bounds": r["bounds"],
                        "status": r["status"], "cbmc_properties": r["props"], "discharged": r["props_ok"],
                        "witnesses_reached": "%d/%d" % (r["witnesses_reached"], r["witnesses"]),
                        "solver_s": round(r.get("solver_s", 0), 2), "wall_s": r["wall_s"],
                        "sat_vars": r.get("sat_vars"), "sat_clauses": r.get("sat_clauses"),
                        "cmd": r["cmd"], "note": r["why"][:300]})
    ev = {
        "property_id": prop, "tier": tier, "seed": seed, "level": "model_checking",
        "coverage": {
            "evaluations": max(nprops, 1) if results else 0,
            "distinct_nontrivial": len(ok),
            "rule": "one evaluation = one verification condition (assertion instance incl. generated pointer/bounds/overflow/"
                    "unwinding checks) decided by the SAT/SMT solver for ALL values of the symbolic inputs within the bounds; "
                    "distinct_nontrivial = number of distinct obligations (harness x bounds) whose verdict was SUCCESS and whose "
                    "reachability witness (an assert(0) on the interesting path) was confirmed reachable by the same solver run",
            "samples": samples,
            "obligations": nprops, "discharged": nok,
            "harness_runs": len(results), "harness_runs_ok": len(ok),
            "inconclusive_or_broken": [{"obligation": r["name"], "status": r["status"], "why": r["why"][:500]} for r in results if r["status"] not in ("SUCCESS", "FAILURE")],
            "checker_cmd": "cbmc 6.11.0 (goto-cc of /repo sources + /verif/harness), flags per sample",
            "trusted_base": ["cbmc 6.11.0 + goto-cc C front end + its SAT back end (MiniSat/CaDiCaL)", "harness reference models and invariants in /verif/harness",
                             "environment stubs in /verif/stubs (listed under assumptions)"] + meta.get("trusted", []),
            "functions_encoded": [f for f in fnset if not f.startswith("nondet_")][:400],
            "solver_seconds": round(sum(r.get("solver_s", 0) for r in results), 2),
            "symex_seconds": round(sum(r.get("symex_s", 0) for r in results), 2),
            "exhaustive": False,
            "explanation": meta.get("explanation", ""),
            "outside_bounds": meta.get("outside", []),
        },
        "assumptions": meta.get("assumptions", []),
        "wall_s": round(wall, 2),
        "violations": violations,
    }
    # partial runs (--only) must not overwrite the evidence of the full check
    # (VERIF_EVIDENCE_DIR: runs against a scratch copy of the repository -- the seeded-change matrix -- keep their results out of /verif/evidence)
    evdir = os.environ.get("VERIF_EVIDENCE_DIR") or (os.path.join(VERIF, "evidence") if not only else os.path.join(OUT, "evidence_partial"))
    os.makedirs(evdir, exist_ok=True)
    with open(os.path.join(evdir, prop + ".json"), "w") as f:
        json.dump(ev, f, indent=1)
    for l in lines:
        print(l)
    kf = load_known()
    for k in kf["finding"]:
        if k["property"] == prop:
            print("KNOWN-FINDING: property=%s %s" % (prop, k["text"]))
    print("%s tier=%s: %d obligations, %d ok, %d violated, %d inconclusive/vacuous; %d/%d solver-decided assertions hold; %.1fs" % (
        prop, tier, len(results), len(ok), violations, broken, nok, nprops, wall))
    if violations:
        return 1
    if broken:
        # never report a timeout / vacuous harness as success
        print("INCONCLUSIVE property=%s (%d obligations without verdict)" % (prop, broken))
        return 2
    return 0
