#!/bin/sh
# offline setup: nothing to build -- the checks compile harnesses + /repo sources with goto-cc on every run.
set -e
cd "$(dirname "$0")"
command -v cbmc >/dev/null && command -v goto-cc >/dev/null && command -v z3 >/dev/null
mkdir -p .cache out evidence
chmod +x check tools/*.py tools/cvc5shim/cvc5 2>/dev/null || true
# the generated headers must exist in /repo (they are git-ignored build products of ./configure)
python3 - <<'PY'
import sys; sys.path.insert(0, 'lib')
import vr; vr.ensure_config(); print("setup ok")
PY
