#!/usr/bin/env python3
"""validate MANIFEST.json and evidence/*.json against the schemas in /root/.vp (python3-vt has jsonschema)"""
import json, sys, glob, os
import jsonschema
V = os.path.dirname(os.path.dirname(os.path.abspath(__file__)))
ms = json.load(open('/root/.vp/MANIFEST.schema.json')); es = json.load(open('/root/.vp/EVIDENCE.schema.json'))
m = json.load(open(os.path.join(V, 'MANIFEST.json')))
jsonschema.validate(m, ms)
ids = [json.loads(l)['id'] for l in open(os.path.join(V, 'properties.jsonl'))]
claimed = [c['property_id'] for c in m['checks']]; na = [c['property_id'] for c in m.get('not_applicable', [])]
assert sorted(claimed + na) == sorted(ids), (sorted(set(ids) - set(claimed + na)), 'unaccounted')
for f in sorted(glob.glob(os.path.join(V, 'evidence/*.json'))):
    jsonschema.validate(json.load(open(f)), es)
    print('ok', os.path.basename(f))
print('manifest ok: claimed', claimed)
