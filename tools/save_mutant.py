#!/usr/bin/env python3
"""usage: save_mutant.py <worktree> <A|B> <id> <property> <needs> <confirm-text>"""
import sys, os, shutil, json
wt, x, mid, prop, needs, ran = sys.argv[1:7]
d = os.path.join('/verif/seeded', mid); os.makedirs(d, exist_ok=True)
src = os.path.join(wt, '_mutants', x)
for f in os.listdir(src):
    if os.path.isfile(os.path.join(src, f)) and os.path.getsize(os.path.join(src, f)) < 300000 and f != 'demo_bin':
        shutil.copy(os.path.join(src, f), os.path.join(d, f))
json.dump({"id": mid, "breaks_property": prop, "needs_to_manifest": needs, "confirmed_by_me": ran,
           "caught_by": "TBD"}, open(os.path.join(d, 'meta.json'), 'w'), indent=1)
print("saved", d, os.listdir(d))
