#!/bin/bash
# Applies every seeded change (seeded/<id>/patch.diff) to /repo in turn, runs the quick check of the property it breaks,
# undoes it, and records whether a VIOLATION line was printed.  Output: seeded/matrix_run.log.  Do not run other checks meanwhile.
cd /verif
: > seeded/matrix_run.log
for d in seeded/C*/; do
  m=$(basename $d); c=$(python3 -c "import json;print(json.load(open('$d/meta.json'))['breaks_property'])")
  p=$d/patch.diff; [ -f $d/patch_rebased_on_current_tree.diff ] && p=$d/patch_rebased_on_current_tree.diff
  git -C /repo apply /verif/$p 2>/dev/null || { echo "$m $c PATCH-DOES-NOT-APPLY" >> seeded/matrix_run.log; continue; }
  S=$(date +%s); out=$(VERIF_EVIDENCE_DIR=/verif/out/evidence_mutant ./check $c --tier quick 2>&1); rc=$?
  git -C /repo checkout -- .
  v=$(echo "$out" | grep -c "^VIOLATION")
  obl=$(echo "$out" | grep -E "FAILURE" | awk '{print $2}' | sort -u | tr '\n' ',' | cut -c1-160)
  echo "$m $c rc=$rc violations=$v $(( $(date +%s)-S ))s $obl" >> seeded/matrix_run.log
done
git -C /repo status --short | head -3 >> seeded/matrix_run.log
echo DONE >> seeded/matrix_run.log
