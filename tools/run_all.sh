#!/bin/bash
# run every claimed check (quick or $1=thorough) on the current /repo tree and summarise
T=${1:-quick}
cd /verif
for c in $(python3 -c "import json;print(' '.join(x['property_id'] for x in json.load(open('MANIFEST.json'))['checks']))"); do
  S=$(date +%s); ./check $c --tier $T > out/run_$c.log 2>&1; rc=$?
  echo "$c rc=$rc $(( $(date +%s)-S ))s $(tail -1 out/run_$c.log | cut -c1-150)"
done
