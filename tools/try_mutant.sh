#!/bin/bash
# usage: tools/try_mutant.sh <patch.diff> <Cxx> [check args...]   -- apply a seeded change to /repo, run the check, undo it
P=$1; shift; C=$1; shift
git -C /repo apply "$P" || { echo "patch does not apply"; exit 3; }
cd /verif && VERIF_EVIDENCE_DIR=/verif/out/evidence_mutant ./check $C "$@" 2>&1 | grep -v "^Unwinding\|^Not unw" | grep -E "VIOLATION|FAILURE|INCONCLUSIVE|VACUOUS|BUILD_ERROR|tier=" | head -40
git -C /repo checkout -- .
git -C /repo status --short | head -3
