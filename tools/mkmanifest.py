#!/usr/bin/env python3
"""regenerate /verif/MANIFEST.json from props/*.py (MANIFEST_ENTRY dicts) -- keeps the manifest valid at all times"""
import json, os, sys, importlib
V = os.path.dirname(os.path.dirname(os.path.abspath(__file__)))
sys.path.insert(0, os.path.join(V, 'lib')); sys.path.insert(0, V)
ids = [json.loads(l)['id'] for l in open(os.path.join(V, 'properties.jsonl'))]
checks, na = [], []
NA_REASON = {}
if os.path.exists(os.path.join(V, 'tools', 'not_applicable.json')):
    NA_REASON = json.load(open(os.path.join(V, 'tools', 'not_applicable.json')))
for i in ids:
    try:
        mod = importlib.import_module('props.' + i)
    except ModuleNotFoundError:
        mod = None
    if i in NA_REASON or mod is None or not hasattr(mod, 'MANIFEST_ENTRY'):
        na.append({"property_id": i, "reason": NA_REASON.get(i, "no solver-based check has been built for this property yet (work in progress; see DESIGN.md section 4 for the plan)")})
        continue
    e = mod.MANIFEST_ENTRY
    checks.append({
        "property_id": i,
        "quick_cmd": "./check %s --tier quick" % i,
        "thorough_cmd": "./check %s --tier thorough" % i,
        "evidence_file": "/verif/evidence/%s.json" % i,
        "replay_cmd_template": "./check %s --replay {path}" % i,
        "engine": e.get("engine", "cbmc-unit"),
        "level_claimed": {"category": "model_checking", "text": e["text"], "design_ref": e.get("design_ref", "DESIGN.md section 4, " + i)},
        "level_note": e["note"],
        "technique": e.get("technique", "bounded symbolic model checking of the real C code with cbmc (SAT), symbolic inputs/pre-states, reference-model oracle, reachability witnesses"),
    })
m = {
    "version": 1,
    "setup_cmd": "./setup.sh",
    "hooks": {
        "guard": "PMODELS_ARGOBOTS_VERIF",
        "enable": "checks compile /repo's sources with goto-cc -DPMODELS_ARGOBOTS_VERIF (plus -include stubs/vr_hooks.h for the scheduling-point engine); the normal build never defines it",
        "baseline_off_cmd": "cd /repo && make -j16 >/dev/null && make -C test -j16 check",
        "source_commits": json.load(open(os.path.join(V, 'tools', 'hook_commits.json'))) if os.path.exists(os.path.join(V, 'tools', 'hook_commits.json')) else [],
        "add_only": True,
    },
    "engines": [
        {"name": "cbmc-unit", "path": "lib/vr.py + harness/", "serves_properties": [c["property_id"] for c in checks if c["engine"] in ("cbmc-unit", "cbmc-unit+pps")], "kind_free_text": "E1: goto-cc of the real translation units + harness, one step / one call from symbolic inputs or symbolic valid pre-states, cbmc 6.11 SAT back end"},
        {"name": "cbmc-pps", "path": "stubs/vr_hooks.h + harness/", "serves_properties": [c["property_id"] for c in checks if "pps" in c["engine"]], "kind_free_text": "E2: preemption-point symbolic scheduling: focus operation runs the real code, solver places complete real operations of other agents at every atomic builtin"},
        {"name": "asm-smt", "path": "asm/x86sym.py", "serves_properties": [c["property_id"] for c in checks if "asm" in c["engine"]], "kind_free_text": "E3: own symbolic interpreter for the x86-64 fcontext assembly, queries discharged by z3"},
    ],
    "checks": checks,
    "not_applicable": na,
    "notes": "All checks are bounded: every evidence file lists bounds, stubs and what lies outside.  Exit 2 (INCONCLUSIVE line) means an obligation had no verdict (timeout/OOM/vacuous) and is never reported as success.",
}
json.dump(m, open(os.path.join(V, 'MANIFEST.json'), 'w'), indent=1)
print("claimed:", [c["property_id"] for c in checks]); print("not applicable:", [c["property_id"] for c in na])
