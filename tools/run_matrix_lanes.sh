#!/bin/bash
# Parallel version of run_matrix.sh: N lanes, each a scratch git worktree of /repo's HEAD under /tmp (removed at the end) with its
# own cache/output/evidence directories (VERIF_REPO / VERIF_CACHE / VERIF_OUT / VERIF_EVIDENCE_DIR), so that /repo itself and
# /verif/evidence are never touched.  Every seeded change is applied to a lane, the quick check of the property it breaks is run
# against that lane, and the change is undone.  Output: seeded/matrix_run.log (sorted).  usage: tools/run_matrix_lanes.sh [N=3] [ids...]
cd /verif
N=${1:-3}; shift
ids="$@"; [ -z "$ids" ] && ids=$(ls -d seeded/C*/ | xargs -n1 basename)
rm -f /tmp/matrix_lane_*.log
i=0
for m in $ids; do echo $m >> /tmp/matrix_lane_$((i % N)).todo; i=$((i+1)); done
for l in $(seq 0 $((N-1))); do
  (
    W=/tmp/matrix_lane_$l
    git -C /repo worktree add --detach $W HEAD >/dev/null 2>&1
    cp /repo/src/include/abt_config.h /repo/src/include/abt.h $W/src/include/
    export VERIF_REPO=$W VERIF_CACHE=$W.cache VERIF_OUT=$W.out VERIF_EVIDENCE_DIR=$W.out/evidence VERIF_JOBS=$((16 / N + 1))
    for m in $(cat $W.todo); do
      d=seeded/$m; c=$(python3 -c "import json;print(json.load(open('$d/meta.json'))['breaks_property'])")
      p=$d/patch.diff; [ -f $d/patch_rebased_on_current_tree.diff ] && p=$d/patch_rebased_on_current_tree.diff
      git -C $W apply /verif/$p 2>/dev/null || { echo "$m $c PATCH-DOES-NOT-APPLY" >> $W.log; continue; }
      S=$(date +%s); out=$(./check $c --tier quick 2>&1); rc=$?
      git -C $W checkout -- .
      v=$(echo "$out" | grep -c "^VIOLATION")
      obl=$(echo "$out" | grep -E "FAILURE" | awk '{print $2}' | sort -u | tr '\n' ',' | cut -c1-160)
      echo "$m $c rc=$rc violations=$v $(( $(date +%s)-S ))s $obl" >> $W.log
    done
    git -C /repo worktree remove --force $W >/dev/null 2>&1; rm -rf $W.cache $W.out $W.todo
  ) &
done
wait
git -C /repo worktree prune
cat /tmp/matrix_lane_*.log | sort > seeded/matrix_run.log
rm -f /tmp/matrix_lane_*.log
echo "DONE $(grep -c 'rc=1' seeded/matrix_run.log) reported of $(wc -l < seeded/matrix_run.log)" >> seeded/matrix_run.log
tail -1 seeded/matrix_run.log
