/* native replay for C18/C16: two external threads set the FIRST work-unit-specific value of the same ULT at the same time and the
 * allocation of the key table by the first one fails.  The second thread waits while the table pointer is "locked"; when the
 * first thread gives up (pointer back to NULL) the second one must retry, not use the NULL table.
 * gcc -g -pthread replay/c18_ktable_create_race_native.c -I/repo/src/include -L/repo/src/.libs -labt -Wl,-rpath,/repo/src/.libs -ldl -o /tmp/x && /tmp/x
 * exit 0 = ok; before the fix: SIGSEGV (NULL key table dereferenced by the second thread). */
#define _GNU_SOURCE
#include <abt.h>
#include <dlfcn.h>
#include <errno.h>
#include <pthread.h>
#include <stdio.h>
#include <stdlib.h>
#include <unistd.h>
static __thread int fail_next_alloc;            /* the calling thread's next posix_memalign sleeps, then fails */
static volatile int a_in_alloc;
int posix_memalign(void **p, size_t al, size_t sz)
{
    static int (*real)(void **, size_t, size_t);
    if (!real) real = (int (*)(void **, size_t, size_t))dlsym(RTLD_NEXT, "posix_memalign");
    if (fail_next_alloc) { fail_next_alloc = 0; a_in_alloc = 1; usleep(300000); return ENOMEM; }
    return real(p, al, sz);
}
static ABT_thread T; static ABT_key K; static volatile int release;
static void body(void *a) { while (!release) ABT_thread_yield(); }
static void *thread_a(void *x) { fail_next_alloc = 1; int r = ABT_thread_set_specific(T, K, (void *)0x11); printf("A: set_specific -> %d (expected an error: its allocation failed)\n", r); return NULL; }
static void *thread_b(void *x) { while (!a_in_alloc) ; usleep(50000); int r = ABT_thread_set_specific(T, K, (void *)0x22); printf("B: set_specific -> %d\n", r); return NULL; }
int main(void)
{
    ABT_init(0, 0);
    ABT_xstream xs; ABT_pool pool; ABT_xstream_self(&xs); ABT_xstream_get_main_pools(xs, 1, &pool);
    ABT_key_create(NULL, &K);
    ABT_thread_create(pool, body, NULL, ABT_THREAD_ATTR_NULL, &T);
    pthread_t a, b; pthread_create(&a, 0, thread_a, 0); pthread_create(&b, 0, thread_b, 0);
    pthread_join(a, 0); pthread_join(b, 0);
    void *v = NULL; int r = ABT_thread_get_specific(T, K, &v);
    printf("get_specific -> %d value %p (expected 0x22)\n", r, v);
    release = 1; ABT_thread_join(T); ABT_thread_free(&T); ABT_key_free(&K); ABT_finalize();
    return v == (void *)0x22 ? 0 : 1;
}
