/* native replay for C02 (assembly): assembles /repo's fcontext_x86_64_sysv_elf_gas.S and performs round trips through
 * every save/resume routine pair with canaries in rbx, rbp(skipped: frame pointer), r12-r15, MXCSR and the x87 control
 * word, on a freshly started second context.  exit 0 = all canaries survived and stacks were aligned.
 * build: gcc -O0 -I/repo/src/include replay/c02_fcontext_native.c /repo/src/arch/fcontext/fcontext_x86_64_sysv_elf_gas.S -o c02 */
#include <stdint.h>
#include <stdio.h>
#include <stdlib.h>
#include <xmmintrin.h>
typedef struct { void *dummy; } fcontext_t;
void switch_fcontext(fcontext_t *n, fcontext_t *o);
void jump_fcontext(fcontext_t *n);
void init_and_switch_fcontext(fcontext_t *n, void (*f)(fcontext_t *), void *top, fcontext_t *o);
void switch_with_call_fcontext(void *a, void (*cb)(void *), fcontext_t *n, fcontext_t *o);
void jump_with_call_fcontext(void *a, void (*cb)(void *), fcontext_t *n);
void init_and_switch_with_call_fcontext(void *a, void (*cb)(void *), fcontext_t *n, void (*f)(fcontext_t *), void *top, fcontext_t *o);
static fcontext_t mainctx, bctx; static int cb_count, fails, mode; static uintptr_t b_entry_rsp, cb_rsp;
static void cb(void *a) { cb_count++; uintptr_t sp; __asm__ volatile("movq %%rsp,%0" : "=r"(sp)); cb_rsp = sp; volatile char scribble[256]; for (int i = 0; i < 256; i++) scribble[i] = (char)i; }
static void bfunc(fcontext_t *self)
{
    b_entry_rsp = (uintptr_t)__builtin_frame_address(0) + 8;   /* rsp at function entry (frame pointer = entry rsp - 8 at -O0) */
    for (;;) {   /* B bounces back to main with the routine selected by mode, clobbering every callee-saved register first */
        __asm__ volatile("movq $0xdead,%%rbx; movq $0xdead,%%r12; movq $0xdead,%%r13; movq $0xdead,%%r14; movq $0xdead,%%r15" ::: "rbx", "r12", "r13", "r14", "r15");
        _mm_setcsr(0x1f80 | 0x8000); unsigned short cw = 0x027f; __asm__ volatile("fldcw %0" :: "m"(cw));
        if (mode == 0) switch_fcontext(&mainctx, &bctx); else switch_with_call_fcontext(0, cb, &mainctx, &bctx);
    }
}
#define CANARY_CALL(stmt) do { \
    uint64_t o1, o2, o3, o4, o5; unsigned mx0 = 0x1f80 | 0x6000, mx1; unsigned short cw0 = 0x0f7f, cw1; \
    _mm_setcsr(mx0); __asm__ volatile("fldcw %0" :: "m"(cw0)); \
    __asm__ volatile("movq $0x1111,%%rbx; movq $0x2222,%%r12; movq $0x3333,%%r13; movq $0x4444,%%r14; movq $0x5555,%%r15" ::: "rbx", "r12", "r13", "r14", "r15"); \
    stmt; \
    __asm__ volatile("movq %%rbx,%0; movq %%r12,%1; movq %%r13,%2; movq %%r14,%3; movq %%r15,%4" : "=m"(o1), "=m"(o2), "=m"(o3), "=m"(o4), "=m"(o5) :: "memory"); \
    mx1 = _mm_getcsr(); __asm__ volatile("fnstcw %0" : "=m"(cw1)); \
    if (o1 != 0x1111 || o2 != 0x2222 || o3 != 0x3333 || o4 != 0x4444 || o5 != 0x5555) { printf("FAIL %s: callee-saved registers %lx %lx %lx %lx %lx\n", #stmt, o1, o2, o3, o4, o5); fails++; } \
    if ((mx1 & 0xffc0) != (mx0 & 0xffc0) || cw1 != cw0) { printf("FAIL %s: MXCSR %x->%x x87cw %x->%x\n", #stmt, mx0, mx1, cw0, cw1); fails++; } \
} while (0)
int main(void)
{
    for (int off = 0; off < 64; off += 8) {           /* every 8-byte aligned stack top */
        char *stk = aligned_alloc(64, 65536);
        void *top = stk + 65536 - 64 + off;
        mode = 0; CANARY_CALL(init_and_switch_fcontext(&bctx, bfunc, top, &mainctx));
        if (b_entry_rsp % 16 != 8 || b_entry_rsp + 8 > (uintptr_t)top || (uintptr_t)top - (b_entry_rsp + 8) >= 16) { printf("FAIL: entry rsp %lx for stack top %p\n", b_entry_rsp, top); fails++; }
        mode = 0; CANARY_CALL(switch_fcontext(&bctx, &mainctx));
        mode = 1; CANARY_CALL(switch_fcontext(&bctx, &mainctx));
        mode = 0; CANARY_CALL(switch_with_call_fcontext(0, cb, &bctx, &mainctx));
        mode = 1; CANARY_CALL(switch_with_call_fcontext(0, cb, &bctx, &mainctx));
        char *stk2 = aligned_alloc(64, 65536);
        mode = 0; CANARY_CALL(init_and_switch_with_call_fcontext(0, cb, &bctx, bfunc, stk2 + 65536 - 64 + off, &mainctx));
        mode = 1; CANARY_CALL(switch_fcontext(&bctx, &mainctx));
    }
    printf(fails ? "C02 native replay: %d FAILURES\n" : "C02 native replay: all canaries survived (%d callbacks)\n", fails ? fails : cb_count);
    return fails ? 1 : 0;
}
