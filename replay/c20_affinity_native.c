/* native replay for C20 affinity-parser counterexamples: ./a.out "<string>"  (build with -fsanitize=undefined,address) */
#include "abti.h"
#include "arch/abtd_affinity_parser.c"
#include <stdio.h>
int main(int argc, char **argv)
{
    ABTD_affinity_list *l = NULL;
    int r = ABTD_affinity_list_create(argv[1], &l);
    printf("ret=%d", r);
    if (r == ABT_SUCCESS) {
        printf(" num=%u:", l->num);
        for (uint32_t i = 0; i < l->num && i < 8; i++) { printf(" {"); for (uint32_t j = 0; j < l->p_id_lists[i]->num && j < 8; j++) printf("%d,", l->p_id_lists[i]->ids[j]); printf("}"); }
        ABTD_affinity_list_free(l);
    }
    printf("\n");
    return 0;
}
