/* native replay of the C15 partial-bucket counterexample (white-box: internal memory-pool API of the built libabt.a)
 * gcc -I/repo/src/include -I/repo/src replay/c15_partial_bucket_native.c /repo/src/.libs/libabt.a -lpthread -lm -o /tmp/x && /tmp/x
 * N = 4 headers per bucket.  Three local pools are created, one block is taken from each, and the pools are destroyed:
 * each destruction returns a partial bucket of 3 headers.  3 + 3 > 4: one bucket is completed, 2 headers must remain in the
 * partial bucket with counter 2.  exit 1 if the counter is wrong or free blocks have been lost. */
#include "abti.h"
#include <stdio.h>
static long count_free(ABTI_mem_pool_global_pool *g)
{
    long n = 0; int N = g->num_headers_per_bucket;
    for (ABTI_sync_lifo_element *e = g->bucket_lifo.p_top.ptr; e; ) {
        ABTI_mem_pool_header *h = (ABTI_mem_pool_header *)((char *)e - offsetof(ABTI_mem_pool_header, bucket_info));
        ABTI_sync_lifo_element *nx = e->p_next;
        for (int i = 0; i < N && h; i++, h = h->p_next) n++;
        e = nx;
    }
    for (ABTI_mem_pool_header *h = g->partial_bucket; h; h = h->p_next) n++;   /* real chain, whatever the counter says */
    return n;
}
int main(void)
{
    static ABTI_mem_pool_global_pool g; ABTU_MEM_LARGEPAGE_TYPE lp = ABTU_MEM_LARGEPAGE_MALLOC;
    ABTI_mem_pool_init_global_pool(&g, 4, 64, 0, 4096, &lp, 1, 64, NULL);
    int bad = 0; long taken = 0;
    for (int round = 0; round < 4; round++) {
        ABTI_mem_pool_local_pool l; void *blk;
        if (ABTI_mem_pool_init_local_pool(&l, &g) != ABT_SUCCESS) return 2;
        if (ABTI_mem_pool_alloc(&l, &blk) != ABT_SUCCESS) return 2;
        taken++;                                   /* the block stays with the "application" */
        ABTI_mem_pool_destroy_local_pool(&l);
        long cnt = g.partial_bucket ? (long)g.partial_bucket->bucket_info.num_headers : 0, chainlen = 0;
        for (ABTI_mem_pool_header *h = g.partial_bucket; h; h = h->p_next) chainlen++;
        printf("round %d: partial bucket counter=%ld real chain=%ld, free blocks reachable=%ld\n", round, cnt, chainlen, count_free(&g));
        if (cnt != chainlen) bad = 1;
    }
    /* 3 pages worth of buckets were carved: carved = free + taken must hold */
    long pages = 0; for (ABTI_sync_lifo_element *e = g.mem_page_lifo.p_top.ptr; e; e = e->p_next) pages++;
    long carved = 0;
    for (ABTI_sync_lifo_element *e = g.mem_page_lifo.p_top.ptr; e; e = e->p_next) {
        ABTI_mem_pool_page *p = (ABTI_mem_pool_page *)((char *)e - offsetof(ABTI_mem_pool_page, lifo_elem));
        carved += ((char *)p->p_mem_extra - (char *)p->mem) / 64;
    }
    printf("carved=%ld free=%ld taken=%ld\n", carved, count_free(&g), taken);
    if (carved != count_free(&g) + taken) bad = 1;
    printf(bad ? "DEFECT: free blocks lost / counter wrong\n" : "ok\n");
    return bad;
}
