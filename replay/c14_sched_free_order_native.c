/* Native replay of the C14 finding "ABTI_sched_free freed the pools before the scheduler ULT whose unit lives in one of them".
 * build: gcc -g c14_sched_free_order_native.c -I/repo/src/include -L/repo/src/.libs -labt -lpthread -Wl,-rpath,/repo/src/.libs -o c14_sched_free && ./c14_sched_free   (also: valgrind ./c14_sched_free)
 * before the fix (/repo bc27883, the parent of fix f049b91): exit 1, "free_unit calls AFTER the pool's own p_free: 1", valgrind: invalid read in ABTI_thread_free of the freed pool; after: exit 0, valgrind clean */
#include <stdio.h>
#include <stdlib.h>
#include <abt.h>
/* minimal user-defined pool: singly linked stack of units; unit = malloc'ed node */
typedef struct node { ABT_thread t; struct node *next; } node;
typedef struct { node *head; } pdata;
static int created, freed_units, free_after_pool_free, pool_freed;
static ABT_unit u_create(ABT_pool p, ABT_thread t) { node *n = malloc(sizeof *n); n->t = t; n->next = NULL; created++; return (ABT_unit)n; }
static void u_free(ABT_pool p, ABT_unit u) { if (pool_freed) free_after_pool_free++; freed_units++; free(u); }
static ABT_bool p_empty(ABT_pool p) { pdata *d; ABT_pool_get_data(p, (void **)&d); return d->head ? ABT_FALSE : ABT_TRUE; }
static ABT_thread p_pop(ABT_pool p, ABT_pool_context c) { pdata *d; ABT_pool_get_data(p, (void **)&d); node *n = d->head; if (!n) return ABT_THREAD_NULL; d->head = n->next; return n->t; }
static void p_push(ABT_pool p, ABT_unit u, ABT_pool_context c) { pdata *d; ABT_pool_get_data(p, (void **)&d); node *n = (node *)u; n->next = d->head; d->head = n; }
static int p_init(ABT_pool p, ABT_pool_config c) { pdata *d = calloc(1, sizeof *d); ABT_pool_set_data(p, d); return ABT_SUCCESS; }
static void p_free(ABT_pool p) { pdata *d; ABT_pool_get_data(p, (void **)&d); free(d); pool_freed = 1; }
int main(void)
{
    ABT_init(0, NULL);
    ABT_pool_user_def def; ABT_pool_user_def_create(u_create, u_free, p_empty, p_pop, p_push, &def);
    ABT_pool_user_def_set_init(def, p_init); ABT_pool_user_def_set_free(def, p_free);
    ABT_pool_config cfg; ABT_pool_config_create(&cfg); int one = 1; ABT_pool_config_set(cfg, ABT_pool_config_automatic.key, ABT_pool_config_automatic.type, &one);
    ABT_pool U; ABT_pool_create(def, cfg, &U); ABT_pool_config_free(&cfg);
    ABT_sched S2; ABT_sched_create_basic(ABT_SCHED_BASIC, 1, &U, ABT_SCHED_CONFIG_NULL, &S2);
    ABT_xstream X; ABT_xstream_create(ABT_SCHED_NULL, &X);
    ABT_xstream_join(X);
    int r = ABT_xstream_set_main_sched(X, S2);
    printf("set_main_sched on the joined stream: %d; units created by the user pool: %d\n", r, created);
    r = ABT_xstream_free(&X);
    printf("xstream_free: %d; units freed: %d; free_unit calls AFTER the pool's own p_free: %d\n", r, freed_units, free_after_pool_free);
    ABT_pool_user_def_free(&def);
    ABT_finalize();
    if (free_after_pool_free) { printf("FAIL: free_unit was called on a pool that had already been freed\n"); return 1; }
    printf("PASS\n"); return 0;
}
