/* native replay for C18: ABT_pool_add_sched() on a user-defined pool whose unit creation fails, with an "automatic" scheduler.
 * gcc -g replay/c18_pool_add_sched_native.c -I/repo/src/include -L/repo/src/.libs -labt -lpthread -Wl,-rpath,/repo/src/.libs -o /tmp/x
 * valgrind -q --error-exitcode=9 /tmp/x        (exit 0 = clean; before the fix: invalid write/read in freed scheduler)
 * The call must fail cleanly: error code, and the caller's scheduler must still be alive and usable (here: freed by the caller). */
#include <abt.h>
#include <stdio.h>
#include <stdlib.h>
static int fail_units = 1;
typedef struct unit { struct unit *next; ABT_thread t; } unit_t;
static unit_t *head;
static ABT_unit u_create(ABT_pool p, ABT_thread t) { if (fail_units) return ABT_UNIT_NULL; unit_t *u = calloc(1, sizeof *u); u->t = t; return (ABT_unit)u; }
static void u_free(ABT_pool p, ABT_unit u) { free(u); }
static ABT_bool p_is_empty(ABT_pool p) { return head ? ABT_FALSE : ABT_TRUE; }
static ABT_thread p_pop(ABT_pool p, ABT_pool_context c) { if (!head) return ABT_THREAD_NULL; unit_t *u = head; head = u->next; return u->t; }
static void p_push(ABT_pool p, ABT_unit u, ABT_pool_context c) { unit_t *x = (unit_t *)u; x->next = head; head = x; }
int main(void)
{
    ABT_init(0, 0);
    ABT_pool_user_def def; ABT_pool_user_def_create(u_create, u_free, p_is_empty, p_pop, p_push, &def);
    ABT_pool upool; ABT_pool_create(def, ABT_POOL_CONFIG_NULL, &upool);
    ABT_pool inner; ABT_pool_create_basic(ABT_POOL_FIFO, ABT_POOL_ACCESS_MPMC, ABT_FALSE, &inner);
    ABT_sched_config cfg; ABT_sched_config_create(&cfg, ABT_sched_config_automatic, ABT_TRUE, ABT_sched_config_var_end);
    ABT_sched sched; int r = ABT_sched_create_basic(ABT_SCHED_BASIC, 1, &inner, cfg, &sched);
    ABT_sched_config_free(&cfg);
    if (r != ABT_SUCCESS) { printf("setup failed\n"); return 2; }
    r = ABT_pool_add_sched(upool, sched);              /* unit creation fails inside */
    printf("ABT_pool_add_sched -> %d (expected an error code)\n", r);
    if (r == ABT_SUCCESS) return 3;
    /* the scheduler was not consumed: it is still the caller's, e.g. it can be queried and must be freed by the caller */
    int np = -1; r = ABT_sched_get_num_pools(sched, &np);
    printf("ABT_sched_get_num_pools -> %d, %d pools\n", r, np);
    r = ABT_sched_free(&sched);
    printf("ABT_sched_free -> %d\n", r);
    ABT_pool_free(&inner); ABT_pool_free(&upool); ABT_pool_user_def_free(&def);
    ABT_finalize();
    return 0;
}
