/* Native replay of the C15/C12 finding "a cancelled READY unit is released into the memory pool of the stream it LAST RAN on,
 * by the stream that pops it".
 * build (white-box read of the per-stream pools only; everything is driven through the public API):
 *   gcc -O1 -g c15_cancel_foreign_pool_native.c -I/repo/src/include -I/repo/src -DHAVE_CONFIG_H /repo/src/.libs/libabt.a -lpthread -lm -o c15_cancel
 * History: unnamed ULT T is created into pool PA and runs first on stream A; it asks to be migrated to pool PB (served only by
 * stream B) and yields; B is kept busy, so T sits READY in PB.  Now T is cancelled.  B is released, pops T, sees the cancel
 * request and terminates T: ABTI_ythread_schedule -> ABTI_thread_handle_request(p_thread) hands p_thread->p_last_xstream (= A)
 * to the cancel handler as "the local stream", so B's OS thread pushes T's stack+descriptor block into A's LOCAL memory pool --
 * a structure only A's own thread may touch (no lock) and from which A allocates concurrently.
 * The replay counts the elements of the local pools of A and B before and after (A is idle, B spins in user code at that time).
 * exit 0: the block went to B's pool (the stream that released it).  exit 1: it went to A's pool (defect). */
#include <stdio.h>
#include <stdlib.h>
#include <unistd.h>
#include "abti.h"

static ABT_pool PA, PB;
static volatile int t_first_ran_on = -1, t_second_slice, go_B, blocker_started;
static ABT_xstream XA, XB;
static ABT_thread Tself;

static size_t pool_count(ABTI_mem_pool_local_pool *p)
{
    size_t n = p->bucket_index * p->num_headers_per_bucket;
    ABTI_mem_pool_header *h = p->buckets[p->bucket_index];
    return n + (h ? h->bucket_info.num_headers : 0);
}
static void t_fn(void *arg)
{
    int rank; ABT_self_get_xstream_rank(&rank); t_first_ran_on = rank;
    ABT_thread self; ABT_self_get_thread(&self); Tself = self;
    ABT_thread_migrate_to_pool(self, PB);
    ABT_self_yield();                 /* migration is served here, on stream A; T is now READY in PB */
    t_second_slice = 1;               /* never reached: T is cancelled while it waits in PB */
}
static void blocker_fn(void *arg) { blocker_started = 1; while (!go_B) ; }

int main(void)
{
    ABT_init(0, NULL);
    ABT_pool_create_basic(ABT_POOL_FIFO, ABT_POOL_ACCESS_MPMC, ABT_TRUE, &PA);
    ABT_pool_create_basic(ABT_POOL_FIFO, ABT_POOL_ACCESS_MPMC, ABT_TRUE, &PB);
    ABT_sched SA, SB;
    ABT_sched_create_basic(ABT_SCHED_BASIC, 1, &PA, ABT_SCHED_CONFIG_NULL, &SA);
    ABT_sched_create_basic(ABT_SCHED_BASIC, 1, &PB, ABT_SCHED_CONFIG_NULL, &SB);
    ABT_xstream_create(SA, &XA); ABT_xstream_create(SB, &XB);
    int ra, rb; ABT_xstream_get_rank(XA, &ra); ABT_xstream_get_rank(XB, &rb);
    ABTI_xstream *pa = (ABTI_xstream *)XA, *pb = (ABTI_xstream *)XB;

    ABT_thread_create(PB, blocker_fn, NULL, ABT_THREAD_ATTR_NULL, NULL);          /* keeps B busy */
    while (!blocker_started) ;
    ABT_thread_attr attr; ABT_thread_attr_create(&attr); ABT_thread_attr_set_migratable(attr, ABT_TRUE);
    ABT_thread_create(PA, t_fn, NULL, attr, NULL);                                 /* unnamed: released by whoever terminates it */
    /* wait until T has run its first slice on A and sits in PB */
    size_t sz = 0; do { ABT_pool_get_size(PB, &sz); } while (!(t_first_ran_on >= 0 && sz == 1));
    usleep(50000);                                                                 /* let A finish the yield completely */
    printf("T ran its first slice on stream %d (A is %d, B is %d); it now waits READY in B's pool\n", t_first_ran_on, ra, rb);
    size_t a0 = pool_count(&pa->mem_pool_stack) + pool_count(&pa->mem_pool_desc), b0 = pool_count(&pb->mem_pool_stack) + pool_count(&pb->mem_pool_desc);
    ABT_thread_cancel(Tself);
    go_B = 1;                                                                      /* B now pops T and processes the cancellation */
    do { ABT_pool_get_size(PB, &sz); } while (sz != 0);
    usleep(100000);                                                                /* B has terminated and released T by now */
    size_t a1 = pool_count(&pa->mem_pool_stack) + pool_count(&pa->mem_pool_desc), b1 = pool_count(&pb->mem_pool_stack) + pool_count(&pb->mem_pool_desc);
    printf("second slice ran: %d (expected 0: cancelled)\n", t_second_slice);
    printf("local pools of A: %zu -> %zu elements;  of B: %zu -> %zu elements\n", a0, a1, b0, b1);
    int bad = (a1 != a0);
    if (bad) printf("FAIL: stream B's thread changed stream A's LOCAL memory pool while processing the cancellation (A was idle)\n");
    else printf("PASS: stream A's local pool untouched\n");
    ABT_xstream_join(XA); ABT_xstream_join(XB); ABT_xstream_free(&XA); ABT_xstream_free(&XB);
    ABT_finalize();
    return bad;
}
