#!/bin/bash
# native replay of the C20 environment-layer counterexample: thread_stacksize * 4 wraps for ABT_THREAD_STACKSIZE >= 2^62.
# Before the fix ABT_init() aborts (assertion in mem_pool.c) or segfaults; after it, it returns ABT_ERR_MEM (2) cleanly.
# usage: replay/c20_env_stacksize_native.sh   -> exit 0 if ABT_init returns normally in all three settings
set -u
T=$(mktemp -d); trap 'rm -rf $T' EXIT
cat > $T/i.c <<'EOC'
#include <abt.h>
#include <stdio.h>
int main(void){ int r = ABT_init(0,0); printf("ABT_init -> %d\n", r); if (r==ABT_SUCCESS) ABT_finalize(); return 0; }
EOC
gcc $T/i.c -I/repo/src/include -L/repo/src/.libs -labt -lpthread -Wl,-rpath,/repo/src/.libs -o $T/i || exit 2
bad=0
ABT_THREAD_STACKSIZE=4611686018427387904 ABT_MEM_STACK_PAGE_SIZE=0 $T/i || { echo "crashed (rc=$?)"; bad=1; }
ABT_THREAD_STACKSIZE=4611686018427387904 $T/i || { echo "crashed (rc=$?)"; bad=1; }
$T/i || bad=1
exit $bad
