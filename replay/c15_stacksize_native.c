/* native replay for C15 stack-size counterexamples: ./a.out <stacksize>   (public API only)
 * gcc c15_stacksize_native.c -I/repo/src/include -L/repo/src/.libs -labt -lpthread -Wl,-rpath,/repo/src/.libs */
#include <abt.h>
#include <stdio.h>
#include <stdlib.h>
static void f(void *a) { volatile char buf[1024]; buf[0] = 1; buf[1023] = 2; (void)a; }
int main(int argc, char **argv)
{
    size_t sz = strtoul(argv[1], 0, 10), got = 0;
    ABT_init(0, 0);
    ABT_xstream xs; ABT_pool pool; ABT_xstream_self(&xs); ABT_xstream_get_main_pools(xs, 1, &pool);
    ABT_thread_attr attr; ABT_thread_attr_create(&attr); ABT_thread_attr_set_stacksize(attr, sz);
    for (int i = 0; i < 4; i++) {
        ABT_thread t; int r = ABT_thread_create(pool, f, 0, attr, &t);
        if (r != ABT_SUCCESS) { printf("create failed %d\n", r); return 2; }
        ABT_thread_get_stacksize(t, &got);
        ABT_thread_join(t); ABT_thread_free(&t);
    }
    ABT_thread_attr_free(&attr);
    ABT_finalize();
    printf("ok stacksize=%zu reported=%zu\n", sz, got);
    return got >= sz ? 0 : 1;
}
