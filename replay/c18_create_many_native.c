/* native replay for C18: ABT_thread_create_many() whose second creation fails (allocation failure) must not write a garbage
 * handle into newthread_list[1].
 * gcc -g replay/c18_create_many_native.c -I/repo/src/include -L/repo/src/.libs -labt -lpthread -Wl,-rpath,/repo/src/.libs -ldl -o /tmp/x && /tmp/x
 * exit 0 = ok (entry untouched or ABT_THREAD_NULL); before the fix: the entry holds an indeterminate value (here: thread 0's handle again). */
#define _GNU_SOURCE
#include <abt.h>
#include <dlfcn.h>
#include <errno.h>
#include <stdio.h>
#include <stdlib.h>
static int armed, count;
int posix_memalign(void **p, size_t al, size_t sz)
{
    static int (*real)(void **, size_t, size_t);
    if (!real) real = (int (*)(void **, size_t, size_t))dlsym(RTLD_NEXT, "posix_memalign");
    if (armed && ++count == 2) return ENOMEM;          /* the second ULT's stack+descriptor */
    return real(p, al, sz);
}
static void body(void *a) { (void)a; }
int main(void)
{
    ABT_init(0, 0);
    ABT_xstream xs; ABT_pool pool; ABT_xstream_self(&xs); ABT_xstream_get_main_pools(xs, 1, &pool);
    ABT_thread_attr attr; ABT_thread_attr_create(&attr); ABT_thread_attr_set_stacksize(attr, 20032);   /* non-default: malloc'ed */
    ABT_pool pools[2] = { pool, pool }; void (*fns[2])(void *) = { body, body };
    ABT_thread sentinel = (ABT_thread)0x5e5e5e5e, hs[2] = { sentinel, sentinel };
    armed = 1;
    int r = ABT_thread_create_many(2, pools, fns, NULL, attr, hs);
    armed = 0;
    printf("ABT_thread_create_many -> %d; hs[0]=%p hs[1]=%p (sentinel %p, NULL handle %p)\n", r, (void *)hs[0], (void *)hs[1], (void *)sentinel, (void *)ABT_THREAD_NULL);
    int bad = (r != ABT_SUCCESS) && hs[1] != sentinel && hs[1] != ABT_THREAD_NULL;
    if (bad) printf("DEFECT: a failed creation wrote a garbage handle%s\n", hs[1] == hs[0] ? " (a second copy of thread 0's handle: freeing both is a double free)" : "");
    if (r != ABT_SUCCESS && hs[0] != sentinel && hs[0] != ABT_THREAD_NULL) { ABT_thread_join(hs[0]); ABT_thread_free(&hs[0]); }
    ABT_thread_attr_free(&attr); ABT_finalize();
    return bad;
}
