/* native replay for C06 (blocked-counter imbalance): a ULT with a pending migration request blocks (ABT_self_suspend) and
 * is resumed later.  The suspend callback counts it as blocked in its OLD pool, the migration is served inside the
 * callback, and the resume decrements the NEW pool: the old pool keeps num_blocked == 1 forever (the new one goes to -1),
 * so ABT_xstream_join of the stream that schedules the old pool never returns although all work has terminated.
 * exit 0 = join returned; exit 1 = hung (5 s watchdog).
 * gcc c06_suspend_migrate_native.c -I/repo/src/include -L/repo/src/.libs -labt -lpthread -Wl,-rpath,/repo/src/.libs */
#include <abt.h>
#include <stdio.h>
#include <stdlib.h>
#include <signal.h>
#include <unistd.h>
static ABT_pool p1, p2; static volatile int done;
static void on_alarm(int s) { size_t tot1 = 0, sz1 = 0; ABT_pool_get_total_size(p1, &tot1); ABT_pool_get_size(p1, &sz1);
    fflush(stdout); printf("FAIL: ABT_xstream_join did not return within 5 s although the only work unit terminated (done=%d); old pool: size=%zu total_size(incl. blocked)=%zu\n", done, sz1, tot1); fflush(stdout); _exit(1); }
static void u(void *a)
{
    ABT_thread self; ABT_thread_self(&self);
    ABT_thread_migrate_to_pool(self, p2);   /* served at the next scheduling point: the suspend below */
    ABT_self_suspend();
    done = 1;
}
int main(void)
{
    ABT_init(0, 0);
    ABT_xstream es1, es2;
    ABT_xstream_create(ABT_SCHED_NULL, &es1); ABT_xstream_create(ABT_SCHED_NULL, &es2);
    ABT_xstream_get_main_pools(es1, 1, &p1); ABT_xstream_get_main_pools(es2, 1, &p2);
    ABT_thread t; ABT_thread_create(p1, u, 0, ABT_THREAD_ATTR_NULL, &t);
    ABT_thread_state st; do { ABT_thread_get_state(t, &st); } while (st != ABT_THREAD_STATE_BLOCKED);
    ABT_thread_resume(t);
    ABT_thread_join(t); ABT_thread_free(&t);
    signal(SIGALRM, on_alarm); alarm(5);
    ABT_xstream_join(es1); ABT_xstream_free(&es1);
    ABT_xstream_join(es2); ABT_xstream_free(&es2);
    ABT_finalize();
    printf("PASS: both streams joined (done=%d)\n", done);
    return 0;
}
