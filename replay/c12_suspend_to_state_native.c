/* native replay for C12: the target of ABT_self_suspend_to must be observably RUNNING while it runs.
 * gcc c12_suspend_to_state_native.c -I/repo/src/include -L/repo/src/.libs -labt -lpthread -Wl,-rpath,/repo/src/.libs */
#include <abt.h>
#include <stdio.h>
static ABT_thread ta, tb; static ABT_thread_state seen = (ABT_thread_state)-1;
static void fb(void *a) { ABT_thread_get_state(tb, &seen); ABT_thread_resume(ta); }
static void fa(void *a) { ABT_self_suspend_to(tb); }
int main(void)
{
    ABT_init(0, 0);
    ABT_xstream xs; ABT_pool pool; ABT_xstream_self(&xs); ABT_xstream_get_main_pools(xs, 1, &pool);
    ABT_thread_create(pool, fb, 0, ABT_THREAD_ATTR_NULL, &tb);
    ABT_pool_pop_thread(pool, &tb);                       /* take B out of the pool: it will be run by suspend_to */
    ABT_thread_create(pool, fa, 0, ABT_THREAD_ATTR_NULL, &ta);
    ABT_thread_join(ta); ABT_thread_join(tb); ABT_thread_free(&ta); ABT_thread_free(&tb);
    ABT_finalize();
    printf("state of the running target as seen by ABT_thread_get_state: %d (RUNNING=%d READY=%d)\n", (int)seen, ABT_THREAD_STATE_RUNNING, ABT_THREAD_STATE_READY);
    return seen == ABT_THREAD_STATE_RUNNING ? 0 : 1;
}
