/* native replay for C13: with two RUNNING execution streams (separate pools), a migratable ULT calls ABT_thread_migrate on
 * itself.  The property requires it to pick the other running stream; exit 0 iff it returns ABT_SUCCESS and the ULT then
 * continues on the other stream's pool.
 * gcc c13_migrate_native.c -I/repo/src/include -L/repo/src/.libs -labt -lpthread -Wl,-rpath,/repo/src/.libs */
#include <abt.h>
#include <stdio.h>
static int ret_migrate = -1, moved = 0; static ABT_pool pools[2];
static void f(void *a)
{
    ABT_thread self; ABT_thread_self(&self);
    ret_migrate = ABT_thread_migrate(self);
    ABT_thread_yield();                     /* the request is served at the next scheduling point */
    ABT_pool p; ABT_thread_get_last_pool(self, &p);
    moved = (p == pools[1]);
}
int main(void)
{
    ABT_init(0, 0);
    ABT_xstream xs[2]; ABT_xstream_self(&xs[0]); ABT_xstream_create(ABT_SCHED_NULL, &xs[1]);
    for (int i = 0; i < 2; i++) ABT_xstream_get_main_pools(xs[i], 1, &pools[i]);
    ABT_thread t; ABT_thread_create(pools[0], f, 0, ABT_THREAD_ATTR_NULL, &t);
    ABT_thread_join(t); ABT_thread_free(&t);
    ABT_xstream_join(xs[1]); ABT_xstream_free(&xs[1]);
    ABT_finalize();
    printf("ABT_thread_migrate returned %d (%s), unit moved to the other stream's pool: %d\n", ret_migrate, ret_migrate == ABT_SUCCESS ? "ABT_SUCCESS" : ret_migrate == ABT_ERR_MIGRATION_NA ? "ABT_ERR_MIGRATION_NA" : "?", moved);
    return (ret_migrate == ABT_SUCCESS && moved) ? 0 : 1;
}
