#!/usr/bin/env python3
"""E3: symbolic execution of src/arch/fcontext/fcontext_x86_64_sysv_elf_gas.S with z3 (run with python3-vt).

The .S file is taken from /repo on every run and preprocessed with gcc -E using the repository's abt_config.h
(ABTD_FCONTEXT_PRESERVE_FPU).  Registers are 64-bit bit-vectors, MXCSR 32 bit, x87 control word 16 bit.
Memory is a region map (see DESIGN.md, P9): each region (stack of A, stack of B/C, context cells, a freshly aligned
new stack) has a symbolic base; every address the routines form must be  base + constant  (otherwise the check fails
closed), so loads/stores resolve syntactically.  `callq *%reg` is modelled by the SysV contract: return address pushed,
caller-saved registers havocked, everything below the callee's %rsp in the current stack region havocked, callee-saved
registers, %rsp, MXCSR control and x87 CW preserved.  Unknown mnemonics/operands -> exception -> check fails closed.

Output: JSON on stdout {"queries":[{name, result, ms, model?}], "functions":[...], "instructions": n}
"""
import json, os, re, subprocess, sys, time
import z3

REPO = os.environ.get("VERIF_REPO", "/repo")
ASM = os.path.join(REPO, "src/arch/fcontext/fcontext_x86_64_sysv_elf_gas.S")
CALLEE_SAVED = ["rbx", "rbp", "r12", "r13", "r14", "r15"]
CALLER_SAVED = ["rax", "rcx", "rdx", "rsi", "rdi", "r8", "r9", "r10", "r11"]
ALLREGS = CALLEE_SAVED + CALLER_SAVED + ["rsp"]


class Unsupported(Exception):
    pass


def parse():
    src = subprocess.run(["gcc", "-E", "-P", "-x", "assembler-with-cpp", "-I" + os.path.join(REPO, "src/include"), ASM],
                         capture_output=True, text=True, check=True).stdout
    funcs, cur = {}, None
    for line in src.splitlines():
        line = re.sub(r"/\*.*?\*/", "", line).strip()
        if not line or line.startswith("#"):
            continue
        m = re.match(r"^(\w+):$", line)
        if m:
            cur = m.group(1); funcs[cur] = []; continue
        if line.startswith("."):
            continue
        if cur is None:
            raise Unsupported("instruction outside a function: " + line)
        parts = line.split(None, 1)
        mn = parts[0]; ops = [o.strip() for o in parts[1].split(",")] if len(parts) > 1 else []
        funcs[cur].append((mn, ops))
    return funcs


class Machine:
    def __init__(self, tag):
        self.tag = tag
        self.n = 0
        self.regs = {}
        self.mxcsr = None
        self.fcw = None
        self.regions = {}     # name -> base term
        self.mem = {}         # (region, off, size) -> term
        self.events = []      # ("call", snapshot) / ("jmp", target)
        self.constraints = []
        self.ninstr = 0

    def fresh(self, name, bits=64):
        self.n += 1
        return z3.BitVec("%s_%s_%d" % (self.tag, name, self.n), bits)

    def region(self, name, base=None):
        if base is None:
            base = z3.BitVec("base_" + name, 64)
        self.regions[name] = base
        return base

    def resolve(self, addr):
        for name, base in self.regions.items():
            d = z3.simplify(addr - base)
            if z3.is_bv_value(d):
                v = d.as_signed_long()
                return name, v
        raise Unsupported("address is not region base + constant: %s" % addr)

    def load(self, addr, size):
        r, off = self.resolve(addr)
        key = (r, off, size)
        if key in self.mem:
            return self.mem[key]
        for (rr, oo, ss) in self.mem:
            if rr == r and not (oo + ss <= off or off + size <= oo):
                raise Unsupported("partially overlapping access at %s%+d" % (r, off))
        t = z3.BitVec("init_%s_%s_%d_%d" % (self.tag, r, off & 0xffffffff, size), size * 8)
        self.mem[key] = t
        return t

    def store(self, addr, size, val):
        r, off = self.resolve(addr)
        for (rr, oo, ss) in list(self.mem):
            if rr == r and not (oo + ss <= off or off + size <= oo) and (oo, ss) != (off, size):
                raise Unsupported("partially overlapping store at %s%+d" % (r, off))
        self.mem[(r, off, size)] = val

    # operand decoding
    def ea(self, op):
        m = re.match(r"^(-?(?:0x)?[0-9a-fA-F]*)\(%(\w+)\)$", op)
        if not m:
            raise Unsupported("operand form " + op)
        disp = int(m.group(1), 0) if m.group(1) not in ("", "-") else 0
        return self.regs[m.group(2)] + z3.BitVecVal(disp, 64)

    def reg(self, op):
        m = re.match(r"^%(\w+)$", op)
        if not m or m.group(1) not in ALLREGS:
            raise Unsupported("register operand " + op)
        return m.group(1)

    def step(self, mn, ops):
        self.ninstr += 1
        R = self.regs
        if mn == "pushq":
            r = self.reg(ops[0]); R["rsp"] = z3.simplify(R["rsp"] - 8); self.store(R["rsp"], 8, R[r])
        elif mn == "popq":
            r = self.reg(ops[0]); v = self.load(R["rsp"], 8); R["rsp"] = z3.simplify(R["rsp"] + 8); R[r] = v
        elif mn == "leaq":
            R[self.reg(ops[1])] = z3.simplify(self.ea(ops[0]))
        elif mn == "movq":
            s, d = ops
            if s.startswith("%") and d.startswith("%"):
                R[self.reg(d)] = R[self.reg(s)]
            elif s.startswith("%"):
                self.store(self.ea(d), 8, R[self.reg(s)])
            elif d.startswith("%"):
                R[self.reg(d)] = self.load(self.ea(s), 8)
            else:
                raise Unsupported("movq " + str(ops))
        elif mn == "andq":
            m = re.match(r"^\$(-?\d+)$", ops[0])
            if not m:
                raise Unsupported("andq " + str(ops))
            r = self.reg(ops[1])
            val = R[r] & z3.BitVecVal(int(m.group(1)), 64)
            # the aligned value becomes the base of a fresh region (the new stack)
            name = "NEWSTK%d" % len([k for k in self.regions if k.startswith("NEWSTK")])
            b = z3.BitVec("base_" + name + "_" + self.tag, 64)
            self.constraints.append(b == val)
            self.regions[name] = b
            R[r] = b
        elif mn == "stmxcsr":
            self.store(self.ea(ops[0]), 4, self.mxcsr)
        elif mn == "ldmxcsr":
            self.mxcsr = self.load(self.ea(ops[0]), 4)
        elif mn == "fnstcw":
            self.store(self.ea(ops[0]), 2, self.fcw)
        elif mn == "fldcw":
            self.fcw = self.load(self.ea(ops[0]), 2)
        elif mn == "callq":
            m = re.match(r"^\*%(\w+)$", ops[0])
            if not m:
                raise Unsupported("callq " + str(ops))
            target = R[m.group(1)]
            snap = {"rsp": R["rsp"], "target": target, "rdi": R["rdi"], "mem": dict(self.mem), "regs": dict(R), "mxcsr": self.mxcsr, "fcw": self.fcw}
            self.events.append(("call", snap))
            # SysV contract of the callee
            r, off = self.resolve(R["rsp"])
            for k in list(self.mem):
                if k[0] == r and k[1] < off:
                    del self.mem[k]           # callee's frame (incl. the pushed return address): arbitrary afterwards
            for c in CALLER_SAVED:
                R[c] = self.fresh("clob_" + c)
        elif mn == "jmpq":
            m = re.match(r"^\*%(\w+)$", ops[0])
            if not m:
                raise Unsupported("jmpq " + str(ops))
            self.events.append(("jmp", R[m.group(1)]))
            return "end"
        elif mn == "ret":
            v = self.load(R["rsp"], 8); R["rsp"] = z3.simplify(R["rsp"] + 8); self.events.append(("ret", v)); return "end"
        else:
            raise Unsupported("mnemonic " + mn)
        return None

    def run(self, code):
        for mn, ops in code:
            if self.step(mn, ops) == "end":
                return
        raise Unsupported("fell off the end of the routine")


RESULTS = []


def query(name, constraints, goal, what):
    """prove goal under constraints: assert not(goal) and expect unsat"""
    s = z3.Solver(); s.set("timeout", 60000)
    for c in constraints:
        s.add(c)
    s.add(z3.Not(goal))
    t0 = time.time(); r = s.check(); ms = (time.time() - t0) * 1000
    rec = {"name": name, "what": what, "result": "holds" if r == z3.unsat else ("violated" if r == z3.sat else "unknown"), "ms": round(ms, 1)}
    if r == z3.sat:
        m = s.model(); rec["model"] = {str(d): str(m[d]) for d in m.decls()[:40]}
    RESULTS.append(rec)
    return r == z3.unsat


def witness(name, constraints):
    """vacuity guard: the constraint set of a scenario must be satisfiable ("violated" = a model exists)"""
    s = z3.Solver(); s.set("timeout", 60000)
    for c in constraints:
        s.add(c)
    t0 = time.time(); r = s.check(); ms = (time.time() - t0) * 1000
    RESULTS.append({"name": "WITNESS " + name, "what": "scenario constraints satisfiable", "result": "violated" if r == z3.sat else "holds", "ms": round(ms, 1)})


def entry_state(m, who, stk):
    """a C caller has just executed `call routine`: [rsp] = its return address"""
    m.regs = {r: z3.BitVec("%s_%s" % (who, r), 64) for r in ALLREGS}
    m.regs["rsp"] = m.region(stk)
    m.mxcsr = z3.BitVec(who + "_mxcsr", 32); m.fcw = z3.BitVec(who + "_fcw", 16)
    ra = z3.BitVec(who + "_retaddr", 64)
    m.mem[(stk, 0, 8)] = ra
    return ra


SAVERS = {  # routine -> (register holding p_old_ctx, kind)
    "switch_fcontext": "rsi", "switch_with_call_fcontext": "rcx", "init_and_switch_fcontext": "rcx", "init_and_switch_with_call_fcontext": "r9",
}
NEWCTX = {"switch_fcontext": "rdi", "jump_fcontext": "rdi", "switch_with_call_fcontext": "rdx", "jump_with_call_fcontext": "rdx"}
RESUMERS = ["switch_fcontext", "jump_fcontext", "switch_with_call_fcontext", "jump_with_call_fcontext"]
STARTERS = {"init_and_switch_fcontext": ("rdx", "rsi", "rdi"), "init_and_jump_fcontext": ("rdx", "rsi", "rdi"),
            "init_and_switch_with_call_fcontext": ("r8", "rcx", "rdx"), "init_and_jump_with_call_fcontext": ("r8", "rcx", "rdx")}


def check_all(funcs):
    ninstr = 0
    need = set(list(SAVERS) + RESUMERS + list(STARTERS))
    missing = need - set(funcs)
    if missing:
        raise Unsupported("routines missing from the assembly: %s" % sorted(missing))
    for X in SAVERS:
        # ---------------- phase 1: ULT A suspends itself with routine X ---------------------------------------------
        a = Machine("A_" + X)
        ra_A = entry_state(a, "A", "STK_A")
        A0 = dict(a.regs); mx0, cw0 = a.mxcsr, a.fcw
        ctxA = a.region("CTX_A"); a.regs[SAVERS[X]] = ctxA
        abi = [z3.Extract(3, 0, A0["rsp"]) == 8]       # SysV: at function entry rsp+8 is 16-byte aligned
        if X in NEWCTX:
            ctxB = a.region("CTX_B"); a.regs[NEWCTX[X]] = ctxB
            stkB = a.region("STK_B"); a.mem[("CTX_B", 0, 8)] = stkB    # B's saved frame base
            abi.append(z3.Extract(3, 0, stkB) == 0)                    # (what every saver establishes: proved below)
        else:
            top, fth, nctx = STARTERS[X]
            a.regs[top] = a.region("STKTOP")                           # the raw p_stacktop argument (a region base of its own)
            a.constraints.append(z3.Extract(2, 0, a.regs[top]) == 0)   # p_stacktop is 8-byte aligned (documented precondition)
            stacktop0 = a.regs[top]; f_thread0 = a.regs[fth]; newctx0 = a.regs[nctx]
        a.run(funcs[X]); ninstr += a.ninstr
        cons = a.constraints + abi
        witness(X + " scenario", cons)
        # saved frame of A
        frame_off = -56
        want = {("STK_A", -8, 8): A0["rbp"], ("STK_A", -16, 8): A0["rbx"], ("STK_A", -24, 8): A0["r15"], ("STK_A", -32, 8): A0["r14"],
                ("STK_A", -40, 8): A0["r13"], ("STK_A", -48, 8): A0["r12"], ("STK_A", -56, 4): mx0, ("STK_A", -52, 2): cw0, ("STK_A", 0, 8): ra_A}

        def frame_complete(mem):
            g = [mem.get(("CTX_A", 0, 8)) is not None]
            if g[0]:
                g.append(mem[("CTX_A", 0, 8)] == A0["rsp"] + z3.BitVecVal(frame_off, 64))
            for k, v in want.items():
                g.append(mem.get(k) is not None and True)
                if mem.get(k) is not None:
                    g.append(mem[k] == v)
                else:
                    g.append(z3.BoolVal(False))
            return z3.And(*[x if not isinstance(x, bool) else z3.BoolVal(x) for x in g])
        query("%s: context of the suspending ULT completely saved" % X, cons, frame_complete(a.mem),
              "callee-saved registers, MXCSR, x87 CW and return address are in A's frame and (p_old_ctx) points to it when the routine leaves A's stack")
        query("%s: saved frame base 16-byte aligned" % X, cons, z3.Extract(3, 0, a.mem[("CTX_A", 0, 8)]) == 0, "alignment of a saved context (used when a callback is later called on it)")
        calls = [e for e in a.events if e[0] == "call"]
        for kind, snap in calls:
            query("%s: save precedes the callback" % X, cons, frame_complete(snap["mem"]), "at callq the old context is already complete in memory: the callback may republish the old ULT")
            r, off = a.resolve(snap["rsp"])
            query("%s: callback runs on the new stack" % X, cons, z3.BoolVal(r != "STK_A"), "rsp at callq belongs to the new context's stack, not to the suspending ULT's")
            query("%s: rsp 16-byte aligned at callq" % X, cons, z3.Extract(3, 0, snap["rsp"]) == 0, "SysV stack alignment for the callback")
            query("%s: callback receives cb_arg/f_cb unchanged" % X, cons, z3.And(snap["rdi"] == A0["rdi"], snap["target"] == A0["rsi"]), "first argument and target of the callback")
        kind, tgt = a.events[-1]
        if X in NEWCTX:
            # resumes B from its arbitrary saved frame: registers come from B's frame, rsp = frame + 0x40
            init = lambda off, sz: a.mem.get(("STK_B", off, sz))
            g = z3.And(a.regs["r12"] == init(8, 8), a.regs["r13"] == init(16, 8), a.regs["r14"] == init(24, 8), a.regs["r15"] == init(32, 8), a.regs["rbx"] == init(40, 8),
                       a.regs["rbp"] == init(48, 8), tgt == init(56, 8), a.regs["rsp"] == stkB + 64, a.mxcsr == init(0, 4), a.fcw == init(4, 2))
            query("%s: the resumed context gets exactly its saved registers/FPU words/stack pointer" % X, cons, g, "restore side of a switch into an already started context")
        else:
            g = z3.And(tgt == f_thread0, a.regs["rdi"] == newctx0, z3.Extract(3, 0, a.regs["rsp"]) == 8, z3.ULE(a.regs["rsp"] + 8, stacktop0), z3.ULT(stacktop0 - (a.regs["rsp"] + 8), 16))
            query("%s: new ULT entered with f_thread(p_new_ctx) on an aligned stack just below p_stacktop" % X, cons + [z3.UGE(stacktop0, 64), z3.ULT(stacktop0, z3.BitVecVal(1 << 63, 64))], g,
                  "jmp target = f_thread, rdi = p_new_ctx, rsp = 8 mod 16 (as after a call), first slot strictly below p_stacktop and within 16 bytes of it")
        # ---------------- phase 2: later somebody (ULT C on another stack) resumes A with routine Y -----------------
        keep = {k: v for k, v in a.mem.items() if (k[0] == "STK_A" and k[1] >= frame_off) or k[0] == "CTX_A"}
        for Y in RESUMERS:
            c = Machine("C_%s_%s" % (X, Y))
            c.regions = {"STK_A": a.regions["STK_A"], "CTX_A": a.regions["CTX_A"]}
            entry_state(c, "C", "STK_C")
            c.mem.update(keep)
            c.regs[NEWCTX[Y]] = a.regions["CTX_A"]
            if Y in SAVERS:
                c.regs[SAVERS[Y]] = c.region("CTX_C")
            c.run(funcs[Y]); ninstr += c.ninstr
            kind, tgt = c.events[-1]
            g = z3.And(tgt == ra_A, c.regs["rsp"] == A0["rsp"] + 8, c.mxcsr == mx0, c.fcw == cw0, *[c.regs[r] == A0[r] for r in CALLEE_SAVED])
            query("round trip %s -> %s: A resumes at its return address with rbx rbp r12-r15 rsp MXCSR x87-CW as it left them" % (X, Y), cons + c.constraints, g,
                  "context survives the switch (A's saved frame and context cell are untouched in between: stacks are disjoint, C15)")
            for kind2, snap in [e for e in c.events if e[0] == "call"]:
                r, off = c.resolve(snap["rsp"])
                query("round trip %s -> %s: callback called on A's stack does not overlap A's saved frame" % (X, Y), cons, z3.BoolVal(r == "STK_A" and off == frame_off),
                      "the callee's frame (return address and below) lies strictly below the saved frame")
                query("round trip %s -> %s: rsp aligned at callq" % (X, Y), cons, z3.Extract(3, 0, snap["rsp"]) == 0, "SysV stack alignment for the callback")
    # ---------------- starters without an old context ------------------------------------------------------------------
    for X in ["init_and_jump_fcontext", "init_and_jump_with_call_fcontext"]:
        a = Machine("J_" + X)
        entry_state(a, "A", "STK_A"); A0 = dict(a.regs)
        top, fth, nctx = STARTERS[X]
        a.regs[top] = a.region("STKTOP")
        a.constraints.append(z3.Extract(2, 0, a.regs[top]) == 0)
        stacktop0 = a.regs[top]; f_thread0 = a.regs[fth]; newctx0 = a.regs[nctx]
        a.run(funcs[X]); ninstr += a.ninstr
        kind, tgt = a.events[-1]
        g = z3.And(tgt == f_thread0, a.regs["rdi"] == newctx0, z3.Extract(3, 0, a.regs["rsp"]) == 8, z3.ULE(a.regs["rsp"] + 8, stacktop0), z3.ULT(stacktop0 - (a.regs["rsp"] + 8), 16))
        query("%s: new ULT entered with f_thread(p_new_ctx) on an aligned stack just below p_stacktop" % X, a.constraints + [z3.UGE(stacktop0, 64), z3.ULT(stacktop0, z3.BitVecVal(1 << 63, 64))], g, "as above, for the jump variants")
        for kind2, snap in [e for e in a.events if e[0] == "call"]:
            r, off = a.resolve(snap["rsp"])
            query("%s: callback on the new stack, aligned, with its arguments" % X, a.constraints, z3.And(z3.BoolVal(r.startswith("NEWSTK") or r == "STKTOP"), z3.Extract(3, 0, snap["rsp"]) == 0, snap["rdi"] == A0["rdi"], snap["target"] == A0["rsi"]), "callq in the starting jump variant")
    # peek_fcontext: callee-saved r12 and rsp restored
    if "peek_fcontext" in funcs:
        a = Machine("P")
        ra = entry_state(a, "A", "STK_A"); A0 = dict(a.regs)
        ctx = a.region("CTX_T"); a.regs["rdx"] = ctx; a.mem[("CTX_T", 0, 8)] = a.region("STK_T")
        a.run(funcs["peek_fcontext"]); ninstr += a.ninstr
        kind, v = a.events[-1]
        query("peek_fcontext: returns to its caller with rsp and r12 restored", a.constraints, z3.And(v == ra, a.regs["rsp"] == A0["rsp"] + 8, a.regs["r12"] == A0["r12"]), "peek runs f_peek on the target stack and comes back")
    return ninstr


def main():
    out = {"queries": RESULTS, "error": None}
    try:
        funcs = parse()
        out["functions"] = sorted(funcs)
        out["instructions"] = check_all(funcs)
        out["static_instructions"] = sum(len(v) for v in funcs.values())
    except Unsupported as e:
        out["error"] = "fail closed: %s" % e
    except Exception as e:   # noqa
        import traceback
        out["error"] = "fail closed: %s\n%s" % (e, traceback.format_exc())
    json.dump(out, sys.stdout, indent=1)


if __name__ == "__main__":
    main()
