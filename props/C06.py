"""C06 -- stream join/free and ABT_finalize wait for all work, then terminate."""
from vr import Obl, deepen

META = {
    "explanation": "E2: the scheduler's stop decision (real ABTI_sched_has_to_stop / ABTI_sched_has_unit) against a blocked unit being resumed from another stream "
                   "(real ABT_thread_resume -> ABTI_ythread_resume_and_push), each as focus with the other as a complete environment step at every atomic instruction and at the moment "
                   "the unit is handed to the pool; E1/E2: per-pool blocked-counter algebra of every suspend-type callback followed by a resume, with and without a pending migration.",
    "assumptions": [
        "single-consumer pool (the stream under join is the only one scheduling it), harness pool model; sequential consistency",
        "the top-level ABT_xstream_join / ABT_finalize orchestration is cut at the scheduler's decision function: a stream terminates iff its main scheduler's sched_run leaves its loop, which happens iff ABTI_sched_has_to_stop returns true (basic.c, audited by the encodes/existence check)",
    ],
    "outside": ["real pthread join", "stacked and user-defined schedulers", "ABT_finalize's teardown of memory (C15/C18)", "creation of new units racing with the join (a user-level race)"],
}
SPIN = ["ABTD_spinlock_acquire.0", "ABTD_spinlock_acquire.1"]


def own_obligations(tier):
    o = []
    for v, vn in [(0, "resume_is_focus"), (1, "decision_is_focus")]:
        for fx, fn in [(0, "from_stream"), (1, "from_ext")]:
            o.append(Obl("stop_%s_%s" % (vn, fn), "C06/stop.c", "finish request pending, one unit of the stream's only pool is BLOCKED; real ABT_thread_resume (%s) vs. real ABTI_sched_has_to_stop (%s): the scheduler never decides to stop while the unit is blocked / in flight / ready; counter never negative" % (
                             "issued by another stream" if fx == 0 else "issued by an external thread", "focus" if v == 1 else "evaluated completely at any atomic instruction of the resume and just before the unit becomes visible"),
                         real=["src/thread.c", "src/ythread.c", "src/sched/sched.c"], hooks=True, defs=["VARIANT=%d" % v, "FROM_EXT=%d" % fx, "VR_PUSH_HOOK=vr_push_hook", "VR_REAL_REQUESTS"], unwind=4, cut_loops=SPIN, object_bits=12, backend="cadical",
                         no_std=["--pointer-overflow-check", "--signed-overflow-check", "--undefined-shift-check"],
                         remove_bodies=[], encodes=["ABT_thread_resume", "ABTI_ythread_resume_and_push", "ABTI_sched_has_to_stop", "ABTI_sched_has_unit", "ABTI_pool_dec_num_blocked"],
                         bounds="1 pool, 1 blocked unit, <=2 complete evaluations of the stop condition", symbolic="pool access mode (PRIV / MPSC), placement of the other side's operation", timeout=300))
    for k, nm in [(0, "suspend"), (1, "suspend_unlock"), (2, "suspend_join"), (3, "yield_user_yield"), (4, "thread_yield_to"), (5, "resume_yield_to"), (6, "resume_suspend_to"), (7, "suspend_replace_sched")]:
        o.append(Obl("counter_" + nm, "C06/counter.c", "ABTI_ythread_callback_%s (with or without a pending migration to another pool) followed by ABTI_ythread_resume_and_push (yield-type callbacks: straight back to the pool): each pool's num_blocked equals the number of blocked units associated with it, never negative, zero at the end" % nm,
                     real=["src/thread.c", "src/ythread.c"], hooks=True, defs=["KIND=%d" % k, "VR_SP_EXTRA=vr_check", "VR_REAL_REQUESTS"], unwind=4, cut_loops=SPIN, object_bits=12, backend="cadical",
                     no_std=["--pointer-overflow-check", "--signed-overflow-check", "--undefined-shift-check"],
                     encodes=["ABTI_ythread_callback_" + nm, "ABTI_thread_handle_request", "ABTI_thread_handle_request_migrate", "ABTI_ythread_resume_and_push", "ABTI_pool_inc_num_blocked", "ABTI_pool_dec_num_blocked"],
                     bounds="one block/resume cycle, 3 pools", symbolic="whether a migration request is pending", timeout=300))
    return o


def obligations(tier):
    o = own_obligations(tier)
    import importlib
    C11 = importlib.import_module("props.C11")
    o += [x for x in C11.own_obligations(tier) if x.name == "directed_thread_yield_to"]
    C01 = importlib.import_module("props.C01")
    o += [x for x in C01.own_obligations(tier) if x.name == "main_sched_func"]   # error path of ABT_thread_yield_to must undo its num_blocked pre-increment
    C17 = importlib.import_module("props.C17")
    o += [x for x in C17.obligations(tier) if x.name == "xstream_revive"]   # a stale FINISH request on a revived stream: it stops without a join, later work never runs
    o += deepen([x for x in o if x.hooks], tier)
    return o

MANIFEST_ENTRY = {
    "engine": "cbmc-unit+pps",
    "text": "Bounded symbolic model checking of the real stop-decision and resume code under preemption-point scheduling: every placement of one side's complete operation at the atomic instructions of the other (and at the instant before the pushed unit becomes visible) is covered; a stop decision with a live unit is the violation.",
    "note": "Trusted: cbmc 6.11, harness pool, sequential consistency. The orchestration above the decision function (pthread join, finalize) and stacked/user schedulers are outside.",
    "technique": "bounded symbolic model checking (cbmc) of the real C code with solver-chosen preemption points",
}
