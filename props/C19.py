"""C19 -- timed waits respect their deadline and never damage the waiter queue."""
from vr import Obl
import importlib
C05 = importlib.import_module("props.C05")

META = dict(C05.META)
META["explanation"] = ("E2: ABT_cond_timedwait as focus (real code, ULT poll loop and external-thread futex path) under a virtual clock; the solver chooses "
                       "clock readings, signal/broadcast placements and the other waiters' enqueue/timeout so that the focus times out at the head, in the "
                       "middle or at the tail of the queue, or is signalled first.  Pool pop_wait/pop_timedwait steps are checked in C07 (seq_*_pop_wait).")
META["assumptions"] = C05.META["assumptions"] + ["virtual clock: non-decreasing, solver-chosen for the first 2 readings, then forced past every deadline (progress)", "deadlines are whole seconds (tv_nsec = 0) to keep floating point out of the query"]


def obligations(tier):
    o = C05.wait_obls(tier, True)
    # blocking pool pops: bounded-time return on an empty pool, unit returned when present (virtual clock)
    from props import C07
    o += [x for x in C07.obligations(tier) if x.name.endswith("_pop_wait") or x.name.startswith("seq_fifo_wait_push")]
    return o

MANIFEST_ENTRY = {
    "engine": "cbmc-unit+pps",
    "text": "Bounded symbolic model checking of the real timed-wait code with time as a symbolic variable: every order of deadline expiry, signal, and neighbouring waiters' enqueue/timeout within the bounds is covered by the solver; the oracle is a ghost list plus 'was this waiter signalled'. Blocking pool pops are covered as steps from arbitrary queue states under the same virtual clock.",
    "note": "Trusted: cbmc 6.11, the virtual clock and futex models, harness models of other waiters' queue steps. Real-time accuracy and floating-point rounding of sub-second deadlines are outside the claim.",
    "technique": "bounded symbolic model checking (cbmc) of the real C code with a symbolic virtual clock and solver-chosen preemption points",
}
