"""C08 -- barriers release nobody early and everybody once the last waiter arrives."""
from vr import Obl, deepen

META = {
    "explanation": "E2: ABT_barrier_wait as focus (ULT and external-thread caller) with n in 1..3 symbolic, a caller possibly parked already, the last arrival "
                   "as a complete real call of another agent and a fast re-entering caller; E1: create/reinit/get_num_waiters/free and the execution-stream barrier wrapper.",
    "assumptions": [
        "sequential consistency; environment operations complete and well nested; switch/futex/pool models of harness/world.h; spin loops cut by unwinding assumptions",
        "arrivals that have to park are harness models of the enqueue step (counter++, append, sleep); the focus and the last arrival are the real code",
        "ABT_xstream_barrier uses pthread_barrier in this configuration: the pthread primitive is trusted, only the wrapper is checked; the sense-reversal fallback is compiled out here and NOT checked",
    ],
    "outside": ["n > 3", "more than 2 consecutive rounds", "tasklet callers (rejected by the 1.x API)"],
}
SPIN = ["ABTD_spinlock_acquire.0", "ABTD_spinlock_acquire.1"]


def obligations(tier):
    o = []
    for fe, fen in [(0, "ult"), (1, "ext")]:
        o.append(Obl("wait_" + fen, "C08/wait.c", "ABT_barrier_wait by %s, n in 1..3 and arrivals so far symbolic; remaining arrivals (last one = real call) and a fast re-entering caller placed by the solver: nobody released before n callers entered, everybody once the last arrives, counter reset and list emptied under the lock, re-entering caller counted into the new round, no lost wake-up" % ("a ULT" if fe == 0 else "an external thread (futex path)"),
                     real=["src/barrier.c", "src/ythread.c", "src/arch/abtd_futex.c"], hooks=True, defs=["FOCUS_EXT=%d" % fe, "VR_SLEEP_STEPS=3"], unwind=4,
                     unwindset=["ABTI_waitlist_wait_and_unlock.1:3", "ABTD_futex_wait_and_unlock.0:2"], cut_loops=SPIN, object_bits=11, backend="cadical",
                     no_std=["--pointer-overflow-check", "--signed-overflow-check", "--undefined-shift-check"],
                     encodes=["ABT_barrier_wait", "ABTI_waitlist_wait_and_unlock", "ABTI_waitlist_broadcast", "ABTI_ythread_suspend_unlock", "ABTI_ythread_callback_suspend_unlock", "ABTI_ythread_resume_and_push", "ABTD_futex_wait_and_unlock", "ABTD_futex_broadcast"],
                     bounds="n <= 3, <= 1 caller parked before the focus, 1 environment step per scheduling point, <= 3 while parked", symbolic="n, arrivals so far, placement and kind of every environment step",
                     timeout=600 if tier == "thorough" else 200))
    o.append(Obl("xstream_barrier_tag_impl", "C08/xbarrier_tag.c", "ABT_xstream_barrier_wait, sense-reversal (tag) implementation compiled where pthread barriers are missing -- NOT the configuration /repo is built in (HAVE_PTHREAD_BARRIER_INIT undefined in the harness): one real wait as focus, the other streams' arrivals (the completing one a real call) at every atomic access and every poll: nobody leaves before all n entered, counter reset and tag advanced once, a spinning waiter gets out once the round is complete",
                 defs=["VR_SP_HARNESS"], unwind=5, cut_loops=SPIN, backend="cadical", no_std=["--pointer-overflow-check"],
                 encodes=["ABT_xstream_barrier_wait (#ifndef HAVE_PTHREAD_BARRIER_INIT branch)"], bounds="n in 2..3 streams, any initial tag, <=3 polls of the spin loop (cut by assumption), <=2 arrivals per scheduling point",
                 symbolic="n, arrivals so far, initial tag, placement of the other arrivals"))
    o.append(Obl("create_reinit_xstream", "C08/misc.c", "ABT_barrier_create/reinit/get_num_waiters/free for EVERY uint32 count pair (reinit larger, smaller, zero) and ABT_xstream_barrier_create/wait/free wrapper over the native barrier",
                 unwind=3, backend="cadical", encodes=["ABT_barrier_create", "ABT_barrier_reinit", "ABT_barrier_get_num_waiters", "ABT_barrier_free", "ABT_xstream_barrier_create", "ABT_xstream_barrier_wait", "ABT_xstream_barrier_free"],
                 bounds="single call sequence; counts: any uint32", symbolic="waiter counts"))
    o.append(Obl("tasklet_rejected", "C08/tasklet.c", "ABT_barrier_wait called by a tasklet (not allowed to wait in this API version) on a barrier of n waiters with c arrivals (symbolic): rejected with ABT_ERR_BARRIER and NOT counted as an arrival; counter, wait-list and lock untouched",
                 unwind=3, unwindset=["ABTD_spinlock_acquire.0:2", "ABTD_spinlock_acquire.1:2"], object_bits=10, backend="cadical", encodes=["ABT_barrier_wait"], bounds="n <= 4", symbolic="number of waiters, arrivals so far"))
    # nesting depth 2 is not offered here: the environment programs of this harness are not re-entrant (a nested step would re-run a
    # step that is in progress) and the runs exceed the thorough budget (measured: no verdict in 900 s)
    return o

MANIFEST_ENTRY = {
    "engine": "cbmc-unit+pps",
    "text": "Bounded symbolic model checking of the real barrier code under preemption-point scheduling: for every n <= 3, every number of earlier arrivals and every placement of the remaining arrivals at the atomic instructions of the focus wait, nobody is released early, everybody is released by the last arrival, and no waiter is left asleep (stuck predicate).",
    "note": "Trusted: cbmc 6.11, switch/futex/pool models, harness model of parking arrivals, pthread_barrier itself. The sense-reversal xstream barrier is compiled out in this configuration and not checked.",
    "technique": "bounded symbolic model checking (cbmc) of the real C code with solver-chosen preemption points, stuck-predicate formulation of lost wakeups",
}
