"""C18 -- a failed allocation makes the call fail cleanly and leaves the runtime intact."""
from vr import Obl
import importlib

META = {
    "explanation": "E1 with the fault position as a symbolic variable: the k-th allocation request of a creating routine fails (k symbolic over all requests the routine makes); "
                   "ledger of live blocks, output handle, error code and a retry are checked.  Multi-stage routines are checked as ladders over their stage functions.",
    "assumptions": [
        "posix_memalign = cbmc malloc + ledger + fault injector (ABTU_malloc/calloc/memalign all go through it in this configuration); pthread_barrier_init may fail likewise",
        "xstream_create: the stage functions of other modules (local memory pools, root ULT, root pool, main-scheduler ULT, native thread) are stubs that acquire/release a counted resource or fail; the ladder itself and the rank bookkeeping are the real code",
        "work-unit creation: caller is an external thread, typed arena with one block per request kind; the key destructor call of ABTI_ktable_free is restricted to thread.c's two destructors (cbmc asserts the pointer is one of them)",
        "ABT_timer_create is excluded (its descriptor cache makes the second call allocation-free)",
    ],
    "outside": ["ABT_init's cross-stage interactions", "scheduler and pool creation (ABT_sched_create*, ABT_pool_create*)", "work-unit creation from a ULT (descriptors from the memory pools: their failure path is the mempool_* obligations)", "failures inside glibc's pthread_*_init other than pthread_barrier_init", "mmap partial failures"],
}
SPIN = ["ABTD_spinlock_acquire.0", "ABTD_spinlock_acquire.1"]
NAMES = ["ABT_mutex_create", "ABT_mutex_create_with_attr", "ABT_mutex_attr_create", "ABT_cond_create", "ABT_barrier_create", "ABT_eventual_create", "ABT_future_create", "ABT_rwlock_create", "ABT_key_create",
         None, "ABT_thread_attr_create", "ABT_xstream_barrier_create"]


def own_obligations(tier):
    o = []
    for w, nm in enumerate(NAMES):
        if nm is None:
            continue
        o.append(Obl("create_" + nm[4:], "C18/create.c", "%s: the k-th allocation request fails (k symbolic over every request of the call, arguments symbolic): error code, nothing left allocated, handle NULL or untouched, retry succeeds, everything freeable" % nm,
                     defs=["WHICH=%d" % w] + (["MULTI"] if w in (5, 6, 11) else []), unwind=3, cut_loops=SPIN, object_bits=10, backend="cadical", encodes=[nm, nm.replace("_create", "_free").replace("_with_attr", "")],
                     bounds="every allocation request of one call (1..3)", symbolic="failing request index, size arguments"))
    REAL2 = ["src/sched/sched.c", "src/sched/basic.c", "src/sched/basic_wait.c", "src/sched/prio.c", "src/sched/randws.c", "src/sched/sched_config.c",
             "src/pool/pool.c", "src/pool/fifo.c", "src/pool/fifo_wait.c", "src/pool/randws.c", "src/pool/pool_config.c", "src/pool/pool_user_def.c", "src/util/hashtable.c"]
    C2 = [("pool_create_basic_%s_%s" % (k.lower(), a.lower()), ["WHICH=0", "KIND=ABT_POOL_" + k, "ACC=ABT_POOL_ACCESS_" + a], "ABT_pool_create_basic(%s, %s, automatic flag symbolic)" % (k, a))
          for k, a in (("FIFO", "PRIV"), ("FIFO", "MPMC"), ("FIFO_WAIT", "MPMC"), ("RANDWS", "PRIV"), ("RANDWS", "MPSC"))]
    C2 += [
          ("pool_user_def_create", ["WHICH=5"], "ABT_pool_user_def_create"),
          ("pool_config_create", ["WHICH=6"], "ABT_pool_config_create")]
    # (the harness also has the scheduler constructors -- ABT_sched_create[_basic] for every predefined scheduler with and without
    #  caller-given pools, ABT_sched_config_create -- and ABT_pool_create with a user definition, WHICH=1,2,3,4,7: no verdict in
    #  1200 s each: pool handles travel through untyped heap arrays and the indirect calls fan out; not claimed, see DESIGN 10)
    for nm, defs, d in C2:
        o.append(Obl("ctor_" + nm, "C18/create2.c", d + ": the k-th allocation request fails, for every k (enumerated by unrolling): error code, nothing left allocated, handle NULL or untouched, the caller's pool keeps its reference count and stays usable, retry succeeds, everything freeable",
                     real=REAL2, defs=defs + ["free=vr_free", "memcpy=vr_memcpy", "memset=vr_memset"], unwind=10, unwindset=["main.0:14"],
                     encodes=["ABT_sched_create", "ABT_sched_create_basic", "ABTI_sched_create_basic", "sched_create", "ABT_sched_free", "ABT_pool_create", "ABT_pool_create_basic", "pool_create", "ABT_pool_free", "ABT_pool_user_def_create", "ABT_pool_config_create", "ABT_sched_config_create", "ABTU_hashtable_create", "sched_init (basic, basic_wait, prio, randws)", "pool_init (fifo, fifo_wait, randws)"],
                     bounds="every allocation request of one call (1..12); <=3 pools per scheduler", symbolic="automatic flag, position of the caller's pool in the array (the failing request index is enumerated)"))
    KD = [("ABTI_ktable_free.function_pointer_call.1", ["thread_key_destructor_stackable_sched", "thread_key_destructor_migration"])]
    for nm, defs, d, to in [("thread_create_noattr", ["WHICH=0", "WITH_ATTR=0"], "ABT_thread_create (default attributes) into a built-in or user-defined pool", 200),
                            ("thread_create_migcb", ["WHICH=0", "WITH_ATTR=1"], "ABT_thread_create with an attribute carrying a migration callback (migration record + key table)", 300),
                            ("sched_ult_create", ["WHICH=1"], "ABTI_ythread_create_sched (the body of ABT_pool_add_sched) for the caller's scheduler, automatic or not", 400),
                            ("task_create", ["WHICH=2"], "ABT_task_create into a built-in or user-defined pool", 200),
                            ("thread_create_many", ["WHICH=3"], "ABT_thread_create_many (2 ULTs, handle array): every array entry is afterwards untouched, the NULL handle, or the handle of a ULT that was really created", 300)]:
        o.append(Obl("unit_" + nm, "C18/create_unit.c", d + ": the k-th allocation fails (k symbolic) and/or the user-defined pool refuses the unit / the unit map fails (symbolic): error code, nothing left allocated, no unit left in the pool, nothing pushed, NULL or untouched handle, objects passed in by the caller (the scheduler) neither freed nor modified; success pushes exactly once",
                     defs=defs, unwind=4, unwindset=["ABTD_spinlock_acquire.0:2", "ABTD_spinlock_acquire.1:2"], object_bits=11, backend="cadical", no_std=["--pointer-overflow-check"], restrict_fp=KD, timeout=to, mem_gb=10,
                     encodes=["ythread_create", "ABT_thread_create", "ABTI_ythread_create_sched", "ABT_task_create", "ABTI_thread_init_pool", "ABTI_ktable_set_unsafe", "ABTI_ktable_free", "ABTI_mem_free_thread"],
                     bounds="every allocation request of one call (<=4), 1-slot key table", symbolic="failing request index, pool kind, unit-creation and unit-map failure, automatic flag"))
    o.append(Obl("revive_user_pool", "C18/revive_fail.c", "ABT_thread_revive / ABT_task_revive into a built-in pool or a user-defined pool whose unit creation / registration fails (symbolic): a failed revive leaves the unit TERMINATED with its old function, argument, association and no unit leaked; a successful one makes it READY with the new function and pushes it once",
                 unwind=4, unwindset=["ABTD_spinlock_acquire.0:2", "ABTD_spinlock_acquire.1:2"], object_bits=11, backend="cadical", no_std=["--pointer-overflow-check"],
                 encodes=["ABT_thread_revive", "ABT_task_revive", "thread_revive", "ABTI_thread_set_associated_pool"], bounds="one revive", symbolic="unit kind, target pool kind, failure of unit creation / registration"))
    o.append(Obl("ktable_grow_fail", "C18/ktable_fail2.c", "real ABTI_ktable_set adding a key to an existing table whose spare space is used up, the allocation of the next block failing (symbolic): error code, old entries untouched, the table's lock released on every path, retry succeeds",
                 unwind=5, cut_loops=["ABTD_spinlock_acquire.0", "ABTD_spinlock_acquire.1"], object_bits=10, backend="cadical", no_std=["--pointer-overflow-check"],
                 encodes=["ABTI_ktable_set", "ABTI_ktable_set_impl", "ABTI_ktable_alloc_elem", "ABTI_ktable_get"], bounds="1-slot table with one element, one new key (+ retry)", symbolic="allocation failure"))
    o.append(Obl("ktable_lazy_create", "C18/ktable_fail.c", "real ABTI_ktable_set on a unit without a key table: its own table allocation may fail (error, pointer NULL again -- not left locked --, retry succeeds) and another agent may be creating the table at the same time and fail or succeed (model of its two steps, placed at the focus' atomic accesses and polling points): the focus retries, never uses a NULL or locked table",
                 defs=["VR_HOOK_PAUSE"], unwind=4, unwindset=["ABTD_spinlock_acquire.0:2", "ABTD_spinlock_acquire.1:2"], cut_loops=["ABTI_ktable_set@while \\(p_ktable == ABTI_KTABLE_LOCKED:3"], object_bits=10, backend="cadical", no_std=["--pointer-overflow-check"], timeout=300, mem_gb=8,
                 encodes=["ABTI_ktable_set", "ABTI_ktable_create", "ABTI_ktable_set_impl", "ABTI_ktable_get"], bounds="one set (+ one retry), one concurrent creator", symbolic="own allocation failure, the other creator's presence, timing and outcome"))
    return o


def obligations(tier):
    o = own_obligations(tier)
    C17 = importlib.import_module("props.C17")
    o += [x for x in C17.obligations(tier) if x.name in ("xstream_create_ladder", "main_sched_other_stream")]
    C15 = importlib.import_module("props.C15")
    o += [x for x in C15.obligations(tier) if x.name.startswith("mempool_take") or x.name == "mempool_local_alloc"]
    C13 = importlib.import_module("props.C13")
    o += [x for x in C13.obligations(tier) if x.name in ("handle_request", "select_stream")]
    return o

MANIFEST_ENTRY = {
    "engine": "cbmc-unit",
    "text": "Bounded symbolic model checking with the failing allocation as a symbolic variable: for each covered routine the solver considers every allocation request failing (one at a time) and every argument value, and shows the routine reports an error, leaks nothing, returns no dangling handle and succeeds on retry.",
    "note": "Trusted: cbmc 6.11 and its allocator model, the ledger. Covered: 11 object-creating routines and the xstream_create ladder; work-unit/scheduler/pool creation through the memory-pool layer is not covered (stated in the evidence).",
    "technique": "bounded symbolic model checking (cbmc) of the real C code with a symbolic fault-injection position",
}
