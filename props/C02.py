"""C02 -- a ULT never runs on two streams at once; its context survives every switch."""
import json, os, subprocess, time
from vr import Obl, VERIF, REPO, sh

META = {
    "explanation": "E3: the x86-64 fcontext assembly is executed symbolically by an own interpreter (asm/x86sym.py, z3): every save routine followed by every "
                   "resume routine (round trips), save-before-callback, callback-on-the-new-stack, alignment of every call/jump for every 8-byte aligned stack top. "
                   "E2: the post-switch callbacks of ythread.c with havoc-on-resume: once the ULT is resumable the solver may resume it at any later atomic instruction.",
    "assumptions": [
        "E3: memory regions (stack of A, stack of B/C, context cells, the freshly aligned new stack) do not alias; A's saved frame and context cell are not written between suspension and resumption (stacks are disjoint: C15)",
        "E3: callq obeys the SysV ABI (callee-saved registers, rsp, MXCSR control bits and x87 control word preserved; everything below the callee's rsp may be clobbered)",
        "E3: SysV entry alignment of the C callers (rsp = 8 mod 16 at function entry); p_stacktop 8-byte aligned (documented)",
        "E3: MXCSR / x87 CW are opaque words copied by stmxcsr/ldmxcsr/fnstcw/fldcw",
        "E2: sequential consistency; 'resumable' predicate per callback kind as documented in harness/C02/callbacks.c",
    ],
    "outside": ["other architectures' .S files, the ucontext back end", "hardware FPU semantics", "interleavings of two partially executed C operations (see C03/C11)"],
    "trusted": ["own x86-64 subset semantics in asm/x86sym.py (pushq popq movq leaq andq stmxcsr ldmxcsr fnstcw fldcw callq jmpq ret)", "z3 4.x (python3-vt)"],
}
KINDS = ["suspend", "suspend_unlock", "suspend_join", "suspend_replace_sched", "resume_suspend_to", "yield_user_yield", "thread_yield_to", "resume_yield_to"]


def run_asm(o, tier, workdir):
    t0 = time.time()
    p = subprocess.run(["python3-vt", os.path.join(VERIF, "asm", "x86sym.py")], capture_output=True, text=True, timeout=600)
    try:
        d = json.loads(p.stdout)
    except Exception:
        return {"status": "INCONCLUSIVE", "why": "interpreter crashed: " + (p.stderr or p.stdout)[-800:]}
    qs = d.get("queries", [])
    wit = [q for q in qs if q["name"].startswith("WITNESS")]
    real = [q for q in qs if not q["name"].startswith("WITNESS")]
    bad = [q for q in real if q["result"] != "holds"]
    r = {"props": len(real), "props_ok": len(real) - len(bad), "witnesses": len(wit), "witnesses_reached": sum(1 for q in wit if q["result"] == "violated"),
         "solver_s": round(sum(q["ms"] for q in qs) / 1000.0, 3), "cmd": "python3-vt asm/x86sym.py  (z3; %d symbolic instructions, %d queries)" % (d.get("instructions", 0), len(qs)),
         "functions": d.get("functions", []), "failed": [], "why": ""}
    if d.get("error"):
        r["status"] = "INCONCLUSIVE"; r["why"] = d["error"]
    elif bad:
        r["status"] = "FAILURE"; r["failed"] = [{"id": "asm", "desc": q["name"]} for q in bad]
        # native replay: assemble the real .S and run the canary round trips
        exe = os.path.join(workdir, "c02_native")
        rc, out, _ = sh(["gcc", "-O0", "-fno-omit-frame-pointer", "-I%s/src/include" % REPO, os.path.join(VERIF, "replay/c02_fcontext_native.c"), "%s/src/arch/fcontext/fcontext_x86_64_sysv_elf_gas.S" % REPO, "-o", exe], timeout=120)
        nat = "build failed: " + out[-500:]
        if rc == 0:
            rc2, out2, _ = sh([exe], timeout=60)
            nat = "exit %d\n%s" % (rc2, out2[-1500:])
        r["trace"] = "violated queries (z3 models):\n" + json.dumps(bad, indent=1)[:6000] + "\n\n--- native replay (replay/c02_fcontext_native.c against the assembled /repo .S) ---\n" + nat
    elif len(wit) != r["witnesses_reached"] or not wit:
        r["status"] = "VACUOUS"; r["why"] = "satisfiability witness missing"
    else:
        r["status"] = "SUCCESS"
    return r


def obligations(tier):
    o = [Obl("asm_fcontext_x86_64", "", "symbolic execution of all nine fcontext routines: 4 save routines x 4 resume routines round trips, save-before-callback, callback on the new stack, 16-byte alignment at every callq / entry, exact restore of a started context, start of a new context for every 8-byte aligned stack top",
             kind="py", pyfunc=run_asm, encodes=["switch_fcontext", "jump_fcontext", "init_and_switch_fcontext", "init_and_jump_fcontext", "switch_with_call_fcontext", "jump_with_call_fcontext", "init_and_switch_with_call_fcontext", "init_and_jump_with_call_fcontext", "peek_fcontext"],
             bounds="straight-line routines: all paths, all 64-bit register/stack contents (exact, no unrolling)", symbolic="all registers, MXCSR, x87 CW, stack contents, stack addresses, p_stacktop")]
    SPIN = ["ABTD_spinlock_acquire.0", "ABTD_spinlock_acquire.1"]
    for k, nm in enumerate(KINDS):
        o.append(Obl("callback_" + nm, "C02/callbacks.c", "ABTI_ythread_callback_%s with havoc-on-resume: once the ULT is resumable for another stream it may be resumed (stack frame and descriptor overwritten) at any later atomic instruction; the callback's remaining effects must still be exactly right; the lock is never free before BLOCKED is visible" % nm,
                     real=["src/ythread.c"], hooks=True, defs=["KIND=%d" % k, "VR_SP_EXTRA=vr_check"], unwind=4, cut_loops=SPIN, object_bits=10, backend="cadical",
                     encodes=["ABTI_ythread_callback_" + nm, "ABTI_thread_handle_request", "ABTI_pool_inc_num_blocked", "ABTI_pool_dec_num_blocked", "ABTI_pool_add_thread"],
                     bounds="one callback execution; resumption at any atomic instruction after the ULT became resumable", symbolic="whether/where the ULT is resumed elsewhere, what overwrites its frame"))
    import importlib as _il
    C11 = _il.import_module("props.C11")
    o += [x for x in C11.own_obligations(tier) if x.name == "directed_thread_yield_to"]   # never switch into a unit another stream popped meanwhile: it would run on two streams
    C05 = _il.import_module("props.C05")
    o += [x for x in C05.obligations("quick") if x.name.startswith("timedwait_ult")]   # wait-list nodes live on the waiting ULT's stack: nothing may point into (and later write through) the stack of a ULT that has left
    return o

MANIFEST_ENTRY = {
    "engine": "asm-smt + cbmc-pps",
    "text": "The context-switch assembly is decided by symbolic execution with z3 over all register/stack/FPU-word values (exact: the routines are loop-free), including every save/resume pairing; the C callbacks that republish a suspended ULT are checked by bounded symbolic model checking with havoc-on-resume at every atomic instruction.",
    "note": "Trusted: the x86-64 subset semantics of asm/x86sym.py, z3, the SysV ABI contract for callq, non-aliasing of stacks/context cells (C15), cbmc 6.11 and sequential consistency for the callback part.",
    "technique": "own symbolic interpreter for the x86-64 assembly with z3 (exact, loop-free) + bounded symbolic model checking (cbmc) of the C callbacks with havoc-on-resume",
}
