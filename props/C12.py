"""C12 -- work-unit lifecycle: exit, cancel, auto-free and revive follow the state machine."""
from vr import Obl, deepen
import importlib

META = {
    "explanation": "E1/E2: one real scheduler step (ABTI_ythread_schedule) on a symbolic unit (ULT started/not started, tasklet; cancel pending or not; joiner blocked or not) and one real revive "
                   "(ABT_thread_revive / ABT_task_revive) of a unit with arbitrary stale request bits and links followed by a scheduler step; a state monitor checks every observed transition; "
                   "blocking callbacks must not execute a pending cancellation (C02 callback obligations with a cancel request pending).",
    "assumptions": [
        "switch model: a context switch into the unit counts as 'it runs'; the unit's body is a ghost; harness pool; sequential consistency",
        "named units (auto-free of unnamed units needs the memory layer: C15); exit paths are covered by C03/C11 (exit_to, joiner hand-off)",
    ],
    "outside": ["repeated revive cycles beyond one (same step from the state the step produces)", "descriptor recycling through the memory pool"],
}
SPIN = ["ABTD_spinlock_acquire.0", "ABTD_spinlock_acquire.1", "ABTI_ythread_atomic_get_joiner@while", "ABTI_ythread_resume_joiner@while"]


def obligations(tier):
    o = []
    for st, nm, d in [(0, "schedule_step", "ABTI_ythread_schedule on a popped unit (ULT started or not / tasklet, cancel pending or not, joiner blocked or not): runs exactly once with its own function and argument, or -- cancelled -- TERMINATED at once, never run, joiner released once"),
                      (1, "revive", "ABT_thread_revive / ABT_task_revive of a unit with arbitrary stale request bits, joiner link and context: rejected unless TERMINATED; READY, clean, pushed once; the next scheduler step runs the NEW function exactly once")]:
        o.append(Obl(nm, "C12/lifecycle.c", d, real=["src/thread.c", "src/task.c", "src/ythread.c"], hooks=True, defs=["STEP=%d" % st, "VR_SP_EXTRA=vr_check", "VR_REAL_REQUESTS"], unwind=4, cut_loops=SPIN, object_bits=12, backend="cadical",
                     no_std=["--pointer-overflow-check", "--signed-overflow-check", "--undefined-shift-check"],
                     encodes=["ABTI_ythread_schedule", "ABTI_thread_handle_request", "ABTI_thread_handle_request_cancel", "ABTI_thread_terminate", "ABTI_ythread_resume_joiner", "ABT_thread_revive", "ABT_task_revive", "thread_revive"],
                     bounds="one scheduler step / one revive + one step", symbolic="unit kind, started or not, pending requests, stale links, joiner presence", timeout=300))
    C11 = importlib.import_module("props.C11")
    o += [x for x in C11.obligations(tier) if x.name in ("directed_self_suspend_to", "directed_self_exit_to", "directed_self_resume_exit_to")]
    C02 = importlib.import_module("props.C02")
    o += [x for x in C02.obligations(tier) if x.name.startswith("callback_suspend")]
    o += deepen([x for x in o if x.hooks], tier)
    C18 = importlib.import_module("props.C18")
    o += [x for x in C18.own_obligations(tier) if x.name == "revive_user_pool"]
    C03 = importlib.import_module("props.C03")
    o += [x for x in C03.obligations("quick") if x.name in ("join_ult", "join_ext", "exit_focus", "cancel_focus")]   # a unit that ends by cancel / exit_to releases its joiner (ULT or external) exactly once
    return o

MANIFEST_ENTRY = {
    "engine": "cbmc-unit+pps",
    "text": "Bounded symbolic model checking of the real scheduler step and revive code from symbolic unit states, with a monitor of the life-cycle transition relation at every atomic instruction; covers cancel-before-run, tasklets, stale requests across revive, joiner release on cancellation.",
    "note": "Trusted: cbmc 6.11, switch/pool models, sequential consistency. Unnamed units' automatic free and descriptor recycling are outside (memory layer).",
    "technique": "bounded symbolic model checking (cbmc) of the real C code with a context-switch model and a transition-relation monitor",
}
