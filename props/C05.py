"""C05 -- condition variables: atomic release-and-wait, exact wakeups, no spurious wakeup."""
from vr import Obl, deepen

META = {
    "explanation": "E2: ABT_cond_wait / ABT_cond_timedwait as focus (real code); the solver places real ABT_cond_signal/ABT_cond_broadcast calls and "
                   "other waiters' enqueue/timeout steps at every atomic instruction, with a waiter optionally ahead of and behind the focus; ghost "
                   "bookkeeping decides who each signal woke.  E1: signal/broadcast steps from arbitrary wait-lists.",
    "assumptions": [
        "sequential consistency; environment operations are complete calls placed at the focus' atomic instructions (well nested)",
        "other waiters' enqueue/timeout steps are harness models of the same list discipline (their frames cannot live on the single C stack); all focus operations and all signals/broadcasts are the real code",
        "nobody contends for the mutex itself in this scenario (C04's subject), so 'mutex free' identifies the window between the waiter's release and its re-acquisition",
        "switch/futex/pool/clock models of harness/world.h and stubs/stub_time.h; spin loops cut by unwinding assumptions",
    ],
    "outside": ["more than one waiter ahead / behind", "p_waiter_mutex staleness across uses", "real futex and clock behaviour", "non-nested overlaps of two partially executed operations"],
}
SPIN = ["ABTD_spinlock_acquire.0", "ABTD_spinlock_acquire.1"]
REAL = ["src/cond.c", "src/mutex.c", "src/ythread.c", "src/arch/abtd_futex.c"]
ENC = ["ABT_cond_wait", "ABT_cond_timedwait", "ABT_cond_signal", "ABT_cond_broadcast", "ABTI_cond_wait", "ABTI_waitlist_wait_and_unlock", "ABTI_waitlist_wait_timedout_and_unlock",
       "ABTI_waitlist_signal", "ABTI_waitlist_broadcast", "ABTI_mutex_unlock", "ABTI_mutex_lock", "ABTI_ythread_callback_suspend_unlock", "ABTI_ythread_resume_and_push", "ABTD_futex_*"]


def wait_obls(tier, timed):
    o = []
    for fe, fen in [(0, "ult"), (1, "ext")]:
        defs = ["FOCUS_EXT=%d" % fe, "VR_SLEEP_STEPS=2"] + (["TIMED"] if timed else [])
        uws = ["ABTI_mutex_lock_no_recursion.0:2"]
        if timed:
            uws += ["ABTI_waitlist_wait_timedout_and_unlock.0:4", "ABTI_waitlist_wait_timedout_and_unlock.1:3"]
        else:
            uws += ["ABTI_waitlist_wait_and_unlock.1:3", "ABTI_waitlist_wait_and_unlock.0:3", "ABTD_futex_wait_and_unlock.0:2"]
        for a1, a1n in [(0, "alone"), (1, "behind_ult"), (2, "behind_ext")]:
            if fe == 1 and a1 == 1:
                continue        # ES1 is the signaller's identity when the focus is an external thread
            o.append(Obl("%s_%s_%s" % ("timedwait" if timed else "wait", fen, a1n), "C05/wait.c",
                         "%s by %s as focus, optionally behind one waiter and ahead of another (ULT / external / timed); <=2 real signal/broadcast calls and the other waiters' enqueue/timeout placed by the solver at every atomic instruction and while parked: %s" % (
                             "ABT_cond_timedwait" if timed else "ABT_cond_wait", "a ULT" if fe == 0 else "an external thread",
                             "TIMEDOUT only past the deadline and only if not signalled, SUCCESS iff signalled, unlink from head/middle/tail leaves the other waiters queued in order with correct tail/p_prev, later signal goes to the next waiter, returns holding the mutex" if timed else
                             "returns only if signalled (no spurious wakeup), signal wakes exactly the head / broadcast all, a signal issued after the mutex release finds the waiter queued (atomic release-and-wait), no lost wakeup, returns holding the mutex"),
                         real=REAL, hooks=True, defs=defs + ["A1=%d" % a1], unwind=4, unwindset=uws, cut_loops=SPIN, object_bits=12, backend="cadical",
                         no_std=["--pointer-overflow-check", "--signed-overflow-check", "--undefined-shift-check"], encodes=ENC,
                         bounds="focus + <=1 waiter ahead + <=1 behind; <=2 signal/broadcast; <=1 environment step per scheduling point; <=2 while parked; poll/retry loops unwound 2-4x with unwinding assertions",
                         symbolic="kinds of the other waiters, placement and kind of every environment step, deadline, clock readings", timeout=900 if tier == "thorough" else 280, mem_gb=12))
    # nesting depth 2 is not offered here: the environment programs of this harness are not re-entrant (a nested step would re-run a
    # step that is in progress) and the runs exceed the thorough budget (measured: no verdict in 900 s)
    return o


def obligations(tier):
    # the timed variant belongs to this property as well (timed waits must not damage the queue for untimed waiters)
    return wait_obls(tier, False) + wait_obls(tier, True)

MANIFEST_ENTRY = {
    "engine": "cbmc-unit+pps",
    "text": "Bounded symbolic model checking of the real condition-variable code under preemption-point scheduling: for every placement of up to two real signal/broadcast calls (and other waiters' queue steps) at the atomic instructions of the focus wait, the solver shows no spurious wakeup, exact wakeups (ghost list comparison), atomic release-and-wait, no lost wakeup (stuck predicate) and return-with-mutex.",
    "note": "Trusted: cbmc 6.11, switch/futex/pool/clock models, sequential consistency, the harness models of other waiters' enqueue/timeout steps. Mutex contention during the wait is excluded here (C04).",
    "technique": "bounded symbolic model checking (cbmc) of the real C code with solver-chosen preemption points (environment = complete real API calls), ghost wake-up bookkeeping, stuck-predicate formulation of lost wakeups",
}
