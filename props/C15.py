"""C15 -- descriptors and stacks: exclusive, conserved, any stack size."""
from vr import Obl

META = {
    "explanation": "E1: stack-provenance round trips with a symbolic stack size; memory-pool steps from symbolic pool states",
    "assumptions": [
        "allocation succeeds (C18 covers failure); mprotect succeeds; stack guard NONE/canary-less configuration of this build",
        "default stack size is a multiple of 512 (abtd_env.c rounds it; checked by C20's env obligations where present)",
        "caller of the provenance harness is an external thread (descriptor from malloc); memory-pool provenance is a separate obligation",
    ],
    "outside": ["mmap/huge-page behaviour of the kernel", "whole-run conservation at ABT_finalize (per-operation conservation is shown instead)"],
}


def obligations(tier):
    o = []
    for p, nm, d in [(0, "malloc_nondefault", "non-default stack size (ANY size 1..16 MiB, in particular not a multiple of 64): usable stack inside the allocation, >= requested, descriptor above it, free() gets exactly the malloc pointer"),
                     (1, "malloc_default_ext", "default stack size requested from an external thread: same checks"),
                     (2, "user_stack", "user-supplied stack at ANY 8-byte aligned address/size: recorded exactly, descriptor elsewhere, user memory never freed")]:
        o.append(Obl("stack_" + nm, "C15/stack.c", d, defs=["PROV=%d" % p], unwind=3, flags=["--memory-leak-check"], backend="cadical",
                     encodes=["ABTI_mem_alloc_ythread_malloc_desc_stack", "ABTI_mem_alloc_ythread_mempool_desc_stack", "ABTI_mem_alloc_ythread_mempool_desc", "ABTI_mem_free_thread", "ABTD_ythread_context_init"],
                     bounds="stack size: any value in [1, 16 MiB] (64-bit bit-vector)", symbolic="stack size, default stack size, user stack offset"))
    return o

MANIFEST_ENTRY = {
    "engine": "cbmc-unit",
    "text": "Bounded symbolic model checking of the real allocation/free routines (abti_mem.h, mem_pool): the stack size is a symbolic bit-vector, so every size between 1 byte and 16 MiB is covered by one solver query per provenance; cbmc's allocator model checks that free() receives exactly the malloc'ed pointer and that every access is in bounds.",
    "note": "Trusted: cbmc 6.11 and its malloc/free model; assumptions listed in the evidence. Interleavings of the lock-free LIFO and several local pools are covered only where the evidence lists a scheduling-point obligation.",
}
