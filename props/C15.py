"""C15 -- descriptors and stacks: exclusive, conserved, any stack size."""
from vr import Obl

META = {
    "explanation": "E1: stack-provenance round trips with a symbolic stack size; memory-pool steps from symbolic pool states (local alloc/free, taking a bucket by carving pages with a symbolic failing page allocation, returning partial buckets), routing of freed blocks to a pool of their own class for every freeing identity; E2: the lock-free tagged-pointer LIFO with complete pushes/pops of other agents (incl. A-B-A sequences and garbage link words) at every atomic access",
    "assumptions": [
        "allocation succeeds (C18 covers failure); mprotect succeeds; stack guard NONE/canary-less configuration of this build",
        "default stack size is a multiple of 512 (abtd_env.c rounds it; checked by C20's env obligations where present)",
        "caller of the provenance harness is an external thread (descriptor from malloc); memory-pool provenance is decided by the mempool_* / route_* obligations",
        "the 128-bit CAS instruction (cmpxchg16b, inline assembly) is modelled as an atomic compare-and-swap of 16 bytes that may fail spuriously once; sequential consistency",
        "memory-pool steps: <=4 blocks per bucket, <=2 local buckets, <=1 global bucket, pages of 3 blocks, <=3 pages; LIFO: <=4 elements, <=3 complete environment operations per focus operation",
    ],
    "outside": ["mmap/huge-page behaviour of the kernel", "mprotect-guarded pools (stack guard pages)", "two partially executed LIFO operations interleaved with each other (only complete operations interleave with the focus)", "whole-run conservation at ABT_finalize (per-operation conservation is shown instead)"],
}


def obligations(tier):
    o = []
    for p, nm, d in [(0, "malloc_nondefault", "non-default stack size (ANY size 1..16 MiB, in particular not a multiple of 64): usable stack inside the allocation, >= requested, descriptor above it, free() gets exactly the malloc pointer"),
                     (1, "malloc_default_ext", "default stack size requested from an external thread: same checks"),
                     (2, "user_stack", "user-supplied stack at ANY 8-byte aligned address/size: recorded exactly, descriptor elsewhere, user memory never freed")]:
        o.append(Obl("stack_" + nm, "C15/stack.c", d, defs=["PROV=%d" % p], unwind=3, flags=["--memory-leak-check"], backend="cadical",
                     encodes=["ABTI_mem_alloc_ythread_malloc_desc_stack", "ABTI_mem_alloc_ythread_mempool_desc_stack", "ABTI_mem_alloc_ythread_mempool_desc", "ABTI_mem_free_thread", "ABTD_ythread_context_init"],
                     bounds="stack size: any value in [1, 16 MiB] (64-bit bit-vector)", symbolic="stack size, default stack size, user stack offset"))
    for op, nm, bud, uw, to in [(0, "push", 2, 5, 300), (1, "pop", 3, 6, 500)]:
        o.append(Obl("lifo_" + nm, "C15/lifo.c", "real ABTI_sync_lifo_%s as focus; at each of its atomic accesses the solver may run complete real pushes/pops of other agents (an owner may scribble on a popped element before pushing it back: A-B-A); weak CAS may fail spuriously: list == ghost stack after every completed operation, pop returns the top at its linearisation point" % nm,
                     defs=["OP=%d" % op, "ENV_BUDGET=%d" % bud], unwind=uw, object_bits=11, backend="cadical", no_std=["--pointer-overflow-check"], timeout=to, mem_gb=8,
                     encodes=["ABTI_sync_lifo_push", "ABTI_sync_lifo_pop", "ABTD_atomic_bool_cas_weak_tagged_ptr", "ABTD_atomic_acquire_load_non_atomic_tagged_ptr"],
                     bounds="LIFO of 0..2 elements + 2 outside, <=%d environment operations, 1 spurious CAS failure, arbitrary initial tag (wrap-around included)" % bud, symbolic="initial content and tag, owners, placement and kind of environment operations, garbage link words"))
    o.append(Obl("mempool_partial", "C15/mempool.c", "mem_pool_return_partial_bucket: P partial + B returned headers, N per bucket, all symbolic: complete buckets only in the global LIFO, the rest in the partial bucket with the right counter, nothing lost",
                 defs=["MODE=0"], unwind=11, object_bits=11, backend="cadical", no_std=["--pointer-overflow-check"], encodes=["mem_pool_return_partial_bucket", "ABTI_mem_pool_return_bucket", "ABTI_sync_lifo_push"],
                 bounds="N <= 4, P < N, B < N", symbolic="N, P, B, LIFO tag"))
    quick_cfg = [(4, 2, 16), (3, 0, 0), (2, 2, 48), (4, 0, 48), (1, 2, 0), (4, 1, 0)]
    all_cfg = [(n, u, off) for n in (1, 2, 3, 4) for u in (0, 1, 2) for off in (0, 16, 48)]
    for (n, u, off) in (quick_cfg if tier == "quick" else all_cfg):
        o.append(Obl("mempool_take_n%du%do%d" % (n, u, off), "C15/mempool.c", "ABTI_mem_pool_take_bucket carving %d blocks (page 0 already used by %d, header offset %d) from pages; the k-th page allocation fails (k symbolic): N distinct in-page blocks clear of live blocks and page descriptors / on failure the carved blocks are conserved in the partial bucket, never an incomplete bucket in the LIFO; pages registered exactly once" % (n, u, off),
                     defs=["MODE=1", "NPB=%d" % n, "U=%d" % u, "OFF=%d" % off], unwind=5, object_bits=11, backend="cadical", no_std=["--pointer-overflow-check"], mem_gb=8, timeout=300,
                     encodes=["ABTI_mem_pool_take_bucket", "mem_pool_return_partial_bucket", "ABTI_sync_lifo_pop", "ABTI_sync_lifo_push"], bounds="pages of 3 blocks of 64 bytes, <=3 pages", symbolic="which page allocation fails, LIFO tags"))
    for op, nm in [(0, "alloc"), (1, "free")]:
        o.append(Obl("mempool_local_" + nm, "C15/mempool.c", "ABTI_mem_pool_%s on a local pool in an arbitrary valid state (bucket index, fill level, N, global bucket present or not; refill fails): the block handed out was free and is not free afterwards / the freed block is free afterwards; nothing else moves; a failed allocation changes nothing" % nm,
                     defs=["MODE=2", "OP=%d" % op], unwind=11, object_bits=11, backend="cadical", no_std=["--pointer-overflow-check"],
                     encodes=["ABTI_mem_pool_alloc", "ABTI_mem_pool_free", "ABTI_mem_pool_take_bucket", "ABTI_mem_pool_return_bucket"], bounds="N in 2..3, <=2 local buckets, <=1 global bucket", symbolic="N, bucket index, fill level, global bucket, garbage in the freed block"))
    for k, nm in [(0, "tasklet"), (1, "ult_default"), (2, "ult_userstack"), (3, "desc")]:
        o.append(Obl("route_" + nm, "C15/memroute.c", "block allocated on ES0 by the real routine (%s) and freed by the real routine on the same stream, another stream or an external thread (symbolic): it lands in the freer's pool OF THE SAME CLASS (descriptor vs stack), global pools under their own lock, every block in exactly one pool" % nm,
                     defs=["KIND=%d" % k], unwind=13, unwindset=["ABTD_spinlock_acquire.0:2", "ABTD_spinlock_acquire.1:2"], object_bits=11, backend="cadical", no_std=["--pointer-overflow-check"],
                     encodes=["ABTI_mem_alloc_nythread", "ABTI_mem_alloc_ythread_default", "ABTI_mem_alloc_ythread_mempool_desc", "ABTI_mem_alloc_desc", "ABTI_mem_free_thread", "ABTI_mem_free_desc", "ABTI_mem_pool_alloc", "ABTI_mem_pool_free"],
                     bounds="6 local pools with 2 blocks each, 3 blocks per bucket", symbolic="identity of the freeing agent"))
    o.append(Obl("route_cancelled_at_pop", "C15/memroute.c", "unnamed tasklet allocated on ES0, last run on a solver-chosen stream (none/ES0/ES1), cancellation pending, popped by the scheduler of a solver-chosen stream: the real ABTI_ythread_schedule -> cancel handler -> ABTI_thread_free releases it into the pool of the stream that executes the release, never into another stream's (lock-less) local pool",
                 real=["src/thread.c"], hooks=True, defs=["KIND=4"], unwind=13, unwindset=["ABTD_spinlock_acquire.0:2", "ABTD_spinlock_acquire.1:2"], object_bits=11, backend="cadical", no_std=["--pointer-overflow-check"],
                 encodes=["ABTI_ythread_schedule", "ABTI_thread_handle_request", "ABTI_thread_handle_request_cancel", "ABTI_thread_terminate", "ABTI_thread_free", "ABTI_mem_free_thread", "ABTI_mem_pool_free"],
                 bounds="6 local pools with 2 blocks each, 3 blocks per bucket", symbolic="stream the unit last ran on, stream that pops it"))
    o.append(Obl("create_many_user_stack", "C18/create_unit.c", "ABT_thread_create_many with an attribute that carries a user-supplied stack, with or without a handle array (symbolic): refused with ABT_ERR_INV_THREAD_ATTR, nothing created -- several live ULTs never share one stack",
                 defs=["WHICH=4"], unwind=4, unwindset=["ABTD_spinlock_acquire.0:2", "ABTD_spinlock_acquire.1:2"], object_bits=11, backend="cadical", no_std=["--pointer-overflow-check"],
                 restrict_fp=[("ABTI_ktable_free.function_pointer_call.1", ["thread_key_destructor_stackable_sched", "thread_key_destructor_migration"])],
                 encodes=["ABT_thread_create_many"], bounds="2 ULTs", symbolic="handle array present or not, pool kind"))
    return o

MANIFEST_ENTRY = {
    "engine": "cbmc-unit",
    "text": "Bounded symbolic model checking of the real allocation/free routines (abti_mem.h, mem_pool): the stack size is a symbolic bit-vector, so every size between 1 byte and 16 MiB is covered by one solver query per provenance; cbmc's allocator model checks that free() receives exactly the malloc'ed pointer and that every access is in bounds.",
    "note": "Trusted: cbmc 6.11 and its malloc/free model; assumptions listed in the evidence. Interleavings of the lock-free LIFO and several local pools are covered only where the evidence lists a scheduling-point obligation.",
}
