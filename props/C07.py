"""C07 -- built-in pools are linearizable queues."""
from vr import Obl

META = {
    "explanation": "E1: one inductive step of each real pool operation from an arbitrary valid queue state (symbolic size 0..3 and symbolic "
                   "order over 5 units, circular-list invariant), against a ghost sequence; FIFO, FIFO_WAIT, RANDWS x shared/private variants",
    "assumptions": [
        "representation invariant of thread_queue_t as built in harness/C07/poolseq.c (circular doubly linked list, num_threads, is_empty, is_in_pool)",
        "pool context flags: at most one OP / OWNER / PRIO flag (documented precondition of the built-in pools)",
        "pthread mutex/cond model of stubs/stub_pthread.h; virtual clock of stubs/stub_time.h (time progresses after 2 free readings)",
        "sequential consistency",
    ],
    "outside": ["queues longer than 3 units before the step (the step functions are size-generic, the bound is on the symbolic pre-state)",
                "overlap of two partially executed operations (both run under the pool lock; see O2)"],
}
KINDS = [(0, 1, "fifo_shared"), (0, 0, "fifo_private"), (1, 1, "fifo_wait"), (2, 1, "randws_shared"), (2, 0, "randws_private")]
# spin loops: sequentially the lock is free, so one iteration suffices -- the unwinding assertion proves it
SPIN = ["thread_queue_acquire_spinlock_if_not_empty.0:2", "thread_queue_acquire_spinlock_if_not_empty.1:2", "ABTD_spinlock_acquire.0:2"]
OPS = ["push", "pop", "push_many", "pop_many", "remove", "pop_wait"]
SRC = {0: "fifo.c", 1: "fifo_wait.c", 2: "randws.c"}


def obligations(tier):
    o = []
    for kind, shared, kname in KINDS:
        for op, opname in enumerate(OPS):
            if tier == "thorough" and opname in ("push", "pop", "remove"):
                o.append(Obl("seqperm_%s_%s" % (kname, opname), "C07/poolseq.c",
                             "%s %s from ANY valid queue of 0..3 of 5 units in ANY order (symbolic permutation)" % (SRC[kind], opname),
                             defs=["KIND=%d" % kind, "SHARED=%d" % shared, "OP=%d" % op, "SYMORDER"], unwind=8, backend="cadical", unwindset=SPIN, timeout=900, mem_gb=10,
                             encodes=["thread_queue_*", "pool_" + opname], bounds="queue length 0..3, symbolic order over 5 units", symbolic="length, order, arguments, context"))
            o.append(Obl("seq_%s_%s" % (kname, opname), "C07/poolseq.c",
                         "%s %s from ANY valid queue of 0..3 of 5 units: invariant + effect equals ghost sequence (order, ends, flags, size queries, lock released)" % (SRC[kind], opname),
                         defs=["KIND=%d" % kind, "SHARED=%d" % shared, "OP=%d" % op], unwind=8, backend="cadical",
                         unwindset=SPIN + (["pool_pop_wait.0:5", "pool_pop_timedwait.0:5"] if op == 5 else []), object_bits=10 if op == 5 else None,
                         encodes=["thread_queue_push_tail", "thread_queue_pop_head", "thread_queue_remove", "thread_queue_acquire_spinlock_if_not_empty", "pool_" + opname],
                         bounds="pre-state queue length 0..3, 5 units, unwind 8", symbolic="queue length, order (permutation), operation arguments, pool context flags, clock"))
    # O4: lock discipline of the operation tables (what ABTI_pool_get_*_def installs for each access mode)
    ACC = ["PRIV", "SPSC", "MPSC", "SPMC", "MPMC"]
    for kind, kn in [(0, "fifo"), (1, "fifo_wait"), (2, "randws")]:
        for a, an in enumerate(ACC):
            for op, opname in enumerate(OPS):
                priv = (a == 0 and kind != 1 and opname != "pop_wait")
                o.append(Obl("lockdisc_%s_%s_%s" % (kn, an, opname), "C07/lockdisc.c",
                             "%s table for ABT_POOL_ACCESS_%s: %s on a non-empty queue while ANOTHER stream holds the pool lock %s" % (
                                 kn, an, opname, "runs (private pools have a single owner)" if priv else "must wait: nothing after the call is reachable; twin with the lock free completes"),
                             defs=["KIND=%d" % kind, "ACCESS=%d" % a, "OP=%d" % op], twin_defs=None if priv else ["LOCKFREE"], unwind=4,
                             flags=["--no-unwinding-assertions"], backend="cadical", no_std=["--pointer-overflow-check", "--signed-overflow-check", "--undefined-shift-check"],
                             encodes=["ABTI_pool_get_%s_def" % kn, "pool_" + opname], bounds="2 queued units; spin loops cut after 3 iterations by an unwinding ASSUMPTION (a spinning caller never proceeds)",
                             symbolic="pool context flags"))
    RCUT = ["thread_queue_acquire_spinlock_if_not_empty.0", "thread_queue_acquire_spinlock_if_not_empty.1", "ABTD_spinlock_acquire.0", "ABTD_spinlock_acquire.1"]
    for kind, kn in [(0, "fifo"), (2, "randws")]:
        for op, opname in [(1, "pop"), (3, "pop_many"), (5, "pop_wait")]:
            o.append(Obl("race_%s_%s" % (kn, opname), "C07/poolrace.c", "real %s of a shared %s pool, instruction by instruction; at every atomic access (unlocked emptiness test, lock word) peers may drain the queue (net effect of their complete pops, while the lock is free): the pool lock is free on return on EVERY path, every unit is in exactly one place, nothing handed out twice, queue invariant holds" % (opname, kn),
                         defs=["KIND=%d" % (0 if kind == 0 else 1), "OP=%d" % op, "ENV_MODEL", "ENV_BUDGET=1"], unwind=5, cut_loops=RCUT, object_bits=10, backend="cadical",
                         no_std=["--pointer-overflow-check", "--signed-overflow-check", "--undefined-shift-check"], timeout=300,
                         encodes=["pool_pop_shared", "pool_pop_many_shared", "pool_pop_wait", "thread_queue_acquire_spinlock_if_not_empty", "thread_queue_pop_head"],
                         bounds="queue of 0..2 units, one drain by peers at a solver-chosen atomic access; spin loops cut by assumption (a peer holding the lock finishes)", symbolic="initial length, placement of the peers' drain, clock"))
    return o

MANIFEST_ENTRY = {
    "engine": "cbmc-unit",
    "text": "Bounded symbolic model checking of the real pool code: each operation of each pool kind/access variant is executed once from an arbitrary symbolic queue satisfying the representation invariant and compared with a ghost sequence (FIFO order, RANDWS ends by context flag, each pushed unit handed out exactly once, exact size/emptiness at quiescence). One inductive step covers operation histories of any length over queues within the size bound.",
    "note": "Trusted: cbmc 6.11, the invariant and ghost model in harness/C07, pthread/clock stubs. Concurrency is covered only as far as operations are critical sections under the pool lock (lock released at the end is asserted); the lock-free is_empty fast path is additionally exercised by the scheduling-point obligations where present.",
}
