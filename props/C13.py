"""C13 -- migration moves a unit to the requested pool exactly once, with its callback."""
from vr import Obl
import importlib

META = {
    "explanation": "E1 steps on the real migration code of thread.c from symbolic states: request side (rejections, store-before-request order checked at every atomic instruction), "
                   "target selection of ABT_thread_migrate over 3 streams with symbolic states/pools, handling side (re-association, callback exactly once, request cleared).",
    "assumptions": [
        "the unit's migration record is pre-installed in its key table (layout validated in C16); built-in pools",
        "ABTI_sched_get_migration_pool without a user callback returns the scheduler's first pool (stubbed copy of sched.c's 6 lines: sched.c cannot be linked because of function-pointer resolution)",
        "a usable destination for ABT_thread_migrate = another RUNNING stream whose main scheduler does not already serve the unit's current pool",
    ],
    "outside": ["user-defined source/target pools in the handling step (unit re-creation is C14)", "interleaving of two overlapping requests with the handler beyond the store/request order"],
}
SPIN = ["ABTD_spinlock_acquire.0", "ABTD_spinlock_acquire.1"]


def obligations(tier):
    o = []
    for m, nm, d in [(0, "request_to_pool", "ABT_thread_migrate_to_pool: rejections (non-migratable, main scheduler, current pool) leave everything untouched; accepted request stores the pool before the request bit is visible"),
                     (1, "select_stream", "ABT_thread_migrate over 3 streams with symbolic states and 1..2 main-scheduler pools each: picks another RUNNING stream when one exists, MIGRATION_NA otherwise"),
                     (2, "handle_request", "ABTI_thread_handle_request_migrate: unit re-associated with the requested pool, callback exactly once with its argument, request cleared")]:
        o.append(Obl(nm, "C13/migrate.c", d, defs=["MODE=%d" % m], unwind=5, cut_loops=SPIN, object_bits=11, backend="cadical",
                     encodes=["ABT_thread_migrate_to_pool", "ABT_thread_migrate", "thread_migrate_to_pool", "ABTI_thread_handle_request_migrate", "ABTI_thread_get_mig_data", "ABTI_thread_set_associated_pool"],
                     bounds="3 streams, <=2 pools per main scheduler, 4 pools", symbolic="unit type bits, target pool, stream states, scheduler pools, callback presence", timeout=300))
    C06 = importlib.import_module("props.C06")
    o += [x for x in C06.own_obligations(tier) if x.name.startswith("counter_")]   # a unit with a pending migration that yields/blocks is pushed to the pool it is now associated with
    return o

MANIFEST_ENTRY = {
    "engine": "cbmc-unit",
    "text": "Bounded symbolic model checking of the real migration request/selection/handling code, one step each from symbolic states: all combinations of unit type bits, target pools, stream states and scheduler pool sets within the bounds are covered by the solver.",
    "note": "Trusted: cbmc 6.11, the pre-installed key-table record, the copy of ABTI_sched_get_migration_pool's default branch. 'Runs exactly once to completion after migration' follows from C01's scheduler step plus the handling step here.",
}
