"""C03 -- join/free return after, and only after, the target has terminated."""
from vr import Obl, deepen

META = {
    "explanation": "E2: ABT_thread_join as focus (ULT joiner on another stream, external-thread joiner) with the target's exit path as two real environment steps "
                   "(joiner wake-up, termination) placed by the solver before/inside/after the join handshake; ABTI_ythread_exit as focus with the joiner's two handshake pieces as environment.",
    "assumptions": [
        "sequential consistency; environment steps complete and well nested; switch/futex/pool models of harness/world.h",
        "the target's exit is split into the real ABTI_ythread_resume_joiner and the real ABTI_ythread_callback_exit (= exit_to/cancel path; = ABTI_ythread_exit for a joiner on another stream)",
        "the yield-based waits (thread_join_yield_thread) and the target's wait for p_link are cut by unwinding assumptions: schedules in which the other side never proceeds are not violations",
    ],
    "outside": ["external-thread joiner against the exiting ULT as focus (covered from the joiner's side)", "two simultaneous joiners (undefined by the API)", "tasklet targets/joiners", "the release of the descriptor in ABT_thread_free (C15)"],
}
SPIN = ["ABTD_spinlock_acquire.0", "ABTD_spinlock_acquire.1", "thread_join_yield_thread@while", "thread_join_busywait@while", "ABTI_ythread_atomic_get_joiner@while", "ABTI_ythread_resume_joiner@while", "ABTD_futex_suspend@while"]


def obligations(tier):
    o = []
    for fe, fen in [(0, "ult"), (1, "ext")]:
        o.append(Obl("join_" + fen, "C03/join.c", "ABT_thread_join by %s; the target's joiner wake-up and termination (real code) placed by the solver before, inside or after the handshake and while the joiner is parked: join returns only after TERMINATED and after the target's function returned, and it does return (stuck predicate: missed hand-off)" % ("a ULT on another stream" if fe == 0 else "an external thread (futex)"),
                     real=["src/thread.c", "src/ythread.c", "src/arch/abtd_futex.c"], hooks=True, defs=["FOCUS_EXT=%d" % fe, "VR_SLEEP_STEPS=3", "VR_REAL_REQUESTS", "VR_HOOK_PAUSE"], unwind=4,
                     cut_loops=SPIN, object_bits=12, backend="cadical", no_std=["--pointer-overflow-check", "--signed-overflow-check", "--undefined-shift-check"],
                     encodes=["ABT_thread_join", "thread_join", "thread_join_futexwait", "thread_join_yield_thread", "thread_join_busywait", "ABTI_ythread_suspend_join", "ABTI_ythread_callback_suspend_join", "ABTI_ythread_atomic_get_joiner", "ABTI_ythread_resume_joiner", "ABTI_ythread_callback_exit", "ABTI_thread_terminate", "ABTD_futex_suspend", "ABTD_futex_resume"],
                     bounds="1 joiner, 1 target, <=1 environment step per scheduling point, <=3 while parked; wait loops cut after 2 rounds", symbolic="when the join is issued relative to the target's exit (before/during/after), placement of both exit steps",
                     timeout=900 if tier == "thorough" else 250))
    o.append(Obl("exit_focus", "C03/exit.c", "the exiting ULT as focus (real ABTI_ythread_exit); the joiner's two real handshake pieces (fetch_or(REQ_JOIN); callback_suspend_join publishing BLOCKED + link) placed by the solver before or at any atomic instruction of the exit, incl. inside its wait for the link; joiner of the same or another stream: a linked joiner is woken exactly once (direct jump or re-push, never both / neither), RUNNING on this stream or READY and queued, blocked count balanced; T ends TERMINATED; T never leaves while a joiner has claimed the join but not linked yet",
                 real=["src/ythread.c", "src/arch/abtd_futex.c"], hooks=True, defs=["VR_REAL_REQUESTS"], unwind=4, cut_loops=["ABTD_spinlock_acquire.0", "ABTD_spinlock_acquire.1", "ABTI_ythread_atomic_get_joiner@while:3", "ABTI_ythread_resume_joiner@while"], object_bits=12, backend="cadical",
                 no_std=["--pointer-overflow-check", "--signed-overflow-check", "--undefined-shift-check"],
                 encodes=["ABTI_ythread_exit", "ABTI_ythread_atomic_get_joiner", "ABTI_ythread_callback_exit", "ABTI_ythread_callback_suspend_join", "ABTI_ythread_resume_and_push", "ABTI_ythread_jump_to_sibling_internal"],
                 bounds="1 exiting ULT, 1 joiner, <=1 environment step per scheduling point; the wait for the link is cut after 3 rounds (a joiner that claimed the join links eventually)", symbolic="how far the joiner got, when its pieces run, whether it last ran on T's stream", timeout=300))
    o.append(Obl("cancel_focus", "C03/exit.c", "the real cancel handler (ABTI_thread_handle_request_cancel, run by the scheduler that popped a cancelled ULT) as focus with the joiner's two real handshake pieces placed at any of its atomic instructions: a linked joiner is woken exactly once (re-pushed), never left behind, the unit ends TERMINATED, the handler never finishes while a joiner has claimed the join but not linked",
                 real=["src/thread.c", "src/ythread.c", "src/arch/abtd_futex.c"], hooks=True, defs=["VR_REAL_REQUESTS", "CANCEL"], unwind=4, cut_loops=["ABTD_spinlock_acquire.0", "ABTD_spinlock_acquire.1", "ABTI_ythread_atomic_get_joiner@while:3", "ABTI_ythread_resume_joiner@while"], object_bits=12, backend="cadical",
                 no_std=["--pointer-overflow-check", "--signed-overflow-check", "--undefined-shift-check"],
                 encodes=["ABTI_thread_handle_request_cancel", "ABTI_ythread_resume_joiner", "ABTI_ythread_atomic_get_joiner", "ABTI_thread_terminate", "ABTI_ythread_callback_suspend_join"],
                 bounds="1 cancelled ULT, 1 joiner, <=1 environment step per scheduling point", symbolic="how far the joiner got, when its pieces run", timeout=300))
    for op, nm in [(0, "free_many"), (1, "join_many"), (2, "join_many_running"), (3, "free_many_running")]:
        o.append(Obl(nm + "_holes", "C03/many.c", "ABT_thread_%s (*_running: targets still RUNNING, the external caller polls until each has terminated) over a three-entry handle array with ABT_THREAD_NULL entries at every combination of positions (all 8 patterns, enumerated: the routines' control flow depends on nothing else; targets already terminated): every non-NULL entry -- before, between and after holes -- is joined, and for free_many released exactly once with its handle reset" % nm,
                     defs=["OP=%d" % op], unwind=9, unwindset=["ABTD_spinlock_acquire.0:2", "ABTD_spinlock_acquire.1:2", "thread_join_busywait.0:3"], object_bits=11, backend="cadical", no_std=["--pointer-overflow-check"],
                     encodes=["ABT_thread_free_many", "ABT_thread_join_many", "thread_join", "thread_free"], bounds="3 entries, terminated targets", symbolic="(none: the 8 hole patterns are enumerated; cbmc decides the memory-safety and ledger assertions)"))
    # nesting depth 2 adds nothing here: the only environment agent (the target) is busy while one of its steps runs
    return o

MANIFEST_ENTRY = {
    "engine": "cbmc-unit+pps",
    "text": "Bounded symbolic model checking of the real join handshake under preemption-point scheduling: every placement of the target's two real exit steps relative to the joiner's atomic instructions (incl. the four orders of request/link/claim) is covered; safety (return only after TERMINATED) by assertion, progress (missed hand-off) by the stuck predicate.",
    "note": "Trusted: cbmc 6.11, switch/futex/pool models, sequential consistency, wait loops cut by assumptions. The same-stream jump of ABTI_ythread_exit is covered where the evidence lists exit_* obligations.",
    "technique": "bounded symbolic model checking (cbmc) of the real C code with solver-chosen preemption points, stuck-predicate formulation of missed hand-offs",
}
