"""C20 -- configuration objects are exact maps; textual settings parse exactly and safely."""
from vr import Obl

META = {
    "explanation": "bounded symbolic checking (cbmc) of the real parsers and map code: the input string / key / value / "
                   "operation arguments are symbolic, the oracle is an independent reference computed in the harness",
    "assumptions": [
        "allocation succeeds (allocation failure is property C18's subject)",
        "fprintf/logging have empty bodies",
        "hashtable/config harnesses: posix_memalign hands out typed zero-initialised arena objects of exactly the requested (cache-line rounded) size, memset(0) on them is a no-op, memcpy is typed (cbmc's untyped malloc objects make this code intractable)",
        "the hashtable's overwritten/deleted out-parameters are passed as NULL exactly as sched_config.c/pool_config.c do (they are not observable through the API; ABTU_hashtable_delete leaves *deleted unset when a one-entry bucket holds another key)",
    ],
    "outside": ["strings longer than the stated lengths", "ABT_init + smoke workload under generated environments (a run, not a solver question)"],
}

ATOI = ["ABTU_atoi", "ABTU_atoui32", "ABTU_atoui64", "ABTU_atosz"]
SATDIG = [10, 10, 20, 20]   # number of digits from which saturation is reachable


def obligations(tier):
    o = []
    # --- O2: atoi family -------------------------------------------------------------------------------
    full = 6 if tier == "quick" else 8
    for w, fn in enumerate(ATOI):
        o.append(Obl("atoi_full_%s" % fn, "C20/atoi.c", "%s on EVERY string of %d arbitrary bytes (+NUL): value/saturation/overflow flag/error vs 128-bit reference; no OOB read, no signed overflow" % (fn, full),
                     defs=["WHICH=%d" % w, "LEN=%d" % full], unwind=full + 2, encodes=[fn, "atoi_impl"], backend="cadical",
                     bounds="LEN=%d bytes, all 256 byte values per position" % full, symbolic="string bytes", timeout=400 if tier == "thorough" else 150))
        ns = [1, 2, 9, 10, 11, 19, 20, 21, 22] if tier == "quick" else list(range(1, 25))
        for n in ns:
            defs = ["WHICH=%d" % w, "NDIG=%d" % n]
            if n >= SATDIG[w]:
                defs.append("EXPECT_SAT")
            o.append(Obl("atoi_shape_%s_%02d" % (fn, n), "C20/atoi.c",
                         "%s on every string  [3 chars from ws/+/-][%d decimal digits][one non-digit byte]: value, saturation at the type limit, overflow flag" % (fn, n),
                         defs=defs, unwind=n + 7, encodes=[fn, "atoi_impl"], backend="cadical",
                         bounds="3 prefix chars in {space,tab,nl,cr,+,-}, exactly %d digits, 1 terminator byte" % n, symbolic="prefix, digits, terminator"))
    # --- O3a: affinity lexer ----------------------------------------------------------------------------
    L = 6 if tier == "quick" else 8
    for w, fn in enumerate(["consume_int", "consume_pint", "consume_symbol"]):
        LL = L if w < 2 else 12
        o.append(Obl("afflex_full_%s" % fn, "C20/afflex.c", "%s on every NUL-terminated string of <=%d arbitrary bytes from every start index: result vs reference, never reads past NUL, no signed overflow" % (fn, LL),
                     defs=["WHICH=%d" % w, "LEN=%d" % LL], unwind=LL + 2, encodes=[fn], backend="cadical",
                     bounds="LEN=%d" % LL, symbolic="string bytes, start index, symbol", timeout=400 if tier == "thorough" else 150))
    for w, fn in enumerate(["consume_int", "consume_pint"]):
        for n in ([1, 9, 10, 11] if tier == "quick" else range(1, 13)):
            defs = ["WHICH=%d" % w, "NDIG=%d" % n] + (["EXPECT_BIG"] if n >= 10 and w == 0 else [])
            o.append(Obl("afflex_shape_%s_%02d" % (fn, n), "C20/afflex.c", "%s on [2 chars ws/+/-][%d digits][non-digit]: exact value if it fits in int, rejected (never wrapped) otherwise, no signed overflow" % (fn, n),
                         defs=defs, unwind=n + 6, encodes=[fn], backend="cadical", bounds="%d digits" % n, symbolic="prefix, digits, terminator"))
    # --- O1: hashtable + config objects ------------------------------------------------------------------
    for op, nm in [(0, "set"), (1, "delete")]:
        o.append(Obl("hashtable_1bucket_%s" % nm, "C20/hashtable.c", "ABTU_hashtable: 1-bucket table pre-filled by the real set with 0..3 entries under symbolic int keys (all collide), ONE %s on a symbolic key, then every key read back vs ghost map; frees exactly once, no leak" % nm,
                     defs=["OP=%d" % op, "NENT=1"], unwind=4, backend="cadical", encodes=["ABTU_hashtable_create", "ABTU_hashtable_set", "ABTU_hashtable_get", "ABTU_hashtable_delete", "ABTU_hashtable_free"],
                     bounds="3 distinct symbolic keys, chain length <= 3, 8-byte values", symbolic="keys, values, number of pre-inserted entries, operated key"))
    o.append(Obl("hashtable_8bucket_lookup", "C20/hashtable.c", "ABTU_hashtable_get on an 8-bucket table for EVERY int key (negative, INT_MIN): bucket index in bounds, absent key not found",
                 defs=["OP=2", "NENT=8", "NPRE=0"], unwind=10, backend="cadical", encodes=["ABTU_hashtable_get", "get_element"], bounds="4 lookups, empty table", symbolic="keys"))
    nops = 4 if tier == "quick" else 6
    for d, nm in [([], "sched_config"), (["POOLCFG"], "pool_config")]:
        o.append(Obl("config_%s" % nm, "C20/config.c", "ABT_%s_create/set/get/delete/free: every sequence of %d typed operations on 3 colliding keys (5,-3,13) vs ghost map: value bits, type, absence, handle reset, everything freed once" % (nm, nops),
                     defs=d + ["NOPS=%d" % nops], unwind=nops + 5, object_bits=11, backend="cadical", encodes=["ABT_%s_set" % nm, "ABT_%s_get" % nm, "ABT_%s_free" % nm, "ABTU_hashtable_*"],
                     bounds="%d operations, 3 keys in one bucket" % nops, symbolic="operation kinds, key choice, value types, value bits", timeout=600 if tier == "thorough" else 150))
    o.append(Obl("env_init", "C20/env.c", "real ABTD_env_init with every ABT_* variable present or absent (symbolic per lookup), the ABTU_ato* family returning an error or ANY value of its type, keyword strings of 16 symbolic bytes: every numeric setting ends inside its documented range and rounding (powers of two, cache-line / bucket multiples, non-zero sizes), no wrap-around, no division by zero",
                 unwind=130, unwindset=["strcasecmp.0:17"], object_bits=10, backend="cadical",
                 encodes=["ABTD_env_init", "load_env_int", "load_env_uint32", "load_env_uint64", "load_env_size", "load_env_bool", "roundup_pow2_uint32", "roundup_pow2_size", "get_abt_env", "ABTD_env_get_stack_guard_mprotect"],
                 bounds="one ABTD_env_init; keyword strings <= 16 bytes", symbolic="presence of every variable, parser results (any value of the type or error), keyword bytes, number of cores"))
    for nda in ([1, 5] if tier == "quick" else [1, 5, 9, 10]):
        o.append(Obl("affgrammar_idlist_%02d" % nda, "C20/affgrammar.c", "parse_es_id_list on \"{A:2:C}\" with A = sign + %d symbolic digits, C = sign + 1 symbolic digit: accepted and expanded to A, A+C whenever that fits in int; no signed overflow, no out-of-bounds access, every block released" % nda,
                     defs=["MODE=3", "NDA=%d" % nda, "ND=1"], unwind=nda + 6, object_bits=10, backend="cadical", timeout=500, mem_gb=8,
                     encodes=["parse_es_id_list", "id_list_create", "id_list_add", "list_calloc", "list_realloc", "list_free_all", "consume_int", "consume_pint", "consume_symbol"],
                     bounds="template {A:2:C}; ids that do not fit in int are outside the claim (the code wraps modulo 2^32 without UB)", symbolic="all digits and signs"))
    o.append(Obl("affgrammar_alloc_list", "C20/affgrammar.c", "the parser's allocation list (list_calloc / list_realloc / list_free_all), on which every error path relies: list of 1..3 blocks, a solver-chosen one (head/middle/tail) re-allocated, one more allocated: the list reaches every live block exactly once, never a freed block, p_tail is the last block, contents kept, list_free_all releases everything",
                 defs=["MODE=6"], unwind=6, object_bits=10, backend="cadical", encodes=["list_calloc", "list_realloc", "list_free_all"], bounds="<=3 blocks + 1 re-allocation + 1 allocation", symbolic="list length, which block is re-allocated"))
    return o

MANIFEST_ENTRY = {
    "engine": "cbmc-unit",
    "text": "Bounded symbolic model checking of the real parsers/maps: for every string (resp. key/value/op) within the stated length bounds the solver shows the result equals an independent reference and that no out-of-bounds access or signed overflow is possible. This is the natural level for a pure input-space property; nothing is claimed beyond the bounds.",
    "note": "Trusted: cbmc 6.11 + goto-cc front end + SAT solver, the reference models in harness/C20/*.c. Assumes allocation succeeds, logging is empty. Long digit strings are checked in 'shape' form (fixed positions of prefix/digits/terminator, all characters symbolic) because a fully symbolic layout of >8 bytes exceeds every installed back end.",
}
