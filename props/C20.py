"""C20 -- configuration objects are exact maps; textual settings parse exactly and safely."""
from vr import Obl

META = {
    "explanation": "bounded symbolic checking (cbmc) of the real parsers and map code: the input string / key / value / "
                   "operation arguments are symbolic, the oracle is an independent reference computed in the harness",
    "assumptions": [
        "allocation succeeds (allocation failure is property C18's subject)",
        "fprintf/logging have empty bodies",
    ],
    "outside": ["strings longer than the stated lengths", "ABT_init + smoke workload under generated environments (a run, not a solver question)"],
}

ATOI = ["ABTU_atoi", "ABTU_atoui32", "ABTU_atoui64", "ABTU_atosz"]
SATDIG = [10, 10, 20, 20]   # number of digits from which saturation is reachable


def obligations(tier):
    o = []
    # --- O2: atoi family -------------------------------------------------------------------------------
    full = 6 if tier == "quick" else 8
    for w, fn in enumerate(ATOI):
        o.append(Obl("atoi_full_%s" % fn, "C20/atoi.c", "%s on EVERY string of %d arbitrary bytes (+NUL): value/saturation/overflow flag/error vs 128-bit reference; no OOB read, no signed overflow" % (fn, full),
                     defs=["WHICH=%d" % w, "LEN=%d" % full], unwind=full + 2, encodes=[fn, "atoi_impl"], backend="cadical",
                     bounds="LEN=%d bytes, all 256 byte values per position" % full, symbolic="string bytes", timeout=400 if tier == "thorough" else 150))
        ns = [1, 2, 9, 10, 11, 19, 20, 21, 22] if tier == "quick" else list(range(1, 25))
        for n in ns:
            defs = ["WHICH=%d" % w, "NDIG=%d" % n]
            if n >= SATDIG[w]:
                defs.append("EXPECT_SAT")
            o.append(Obl("atoi_shape_%s_%02d" % (fn, n), "C20/atoi.c",
                         "%s on every string  [3 chars from ws/+/-][%d decimal digits][one non-digit byte]: value, saturation at the type limit, overflow flag" % (fn, n),
                         defs=defs, unwind=n + 7, encodes=[fn, "atoi_impl"], backend="cadical",
                         bounds="3 prefix chars in {space,tab,nl,cr,+,-}, exactly %d digits, 1 terminator byte" % n, symbolic="prefix, digits, terminator"))
    # --- O3a: affinity lexer ----------------------------------------------------------------------------
    L = 6 if tier == "quick" else 8
    for w, fn in enumerate(["consume_int", "consume_pint", "consume_symbol"]):
        LL = L if w < 2 else 12
        o.append(Obl("afflex_full_%s" % fn, "C20/afflex.c", "%s on every NUL-terminated string of <=%d arbitrary bytes from every start index: result vs reference, never reads past NUL, no signed overflow" % (fn, LL),
                     defs=["WHICH=%d" % w, "LEN=%d" % LL], unwind=LL + 2, encodes=[fn], backend="cadical",
                     bounds="LEN=%d" % LL, symbolic="string bytes, start index, symbol", timeout=400 if tier == "thorough" else 150))
    for w, fn in enumerate(["consume_int", "consume_pint"]):
        for n in ([1, 9, 10, 11] if tier == "quick" else range(1, 13)):
            defs = ["WHICH=%d" % w, "NDIG=%d" % n] + (["EXPECT_BIG"] if n >= 10 and w == 0 else [])
            o.append(Obl("afflex_shape_%s_%02d" % (fn, n), "C20/afflex.c", "%s on [2 chars ws/+/-][%d digits][non-digit]: exact value if it fits in int, rejected (never wrapped) otherwise, no signed overflow" % (fn, n),
                         defs=defs, unwind=n + 6, encodes=[fn], backend="cadical", bounds="%d digits" % n, symbolic="prefix, digits, terminator"))
    return o

MANIFEST_ENTRY = {
    "engine": "cbmc-unit",
    "text": "Bounded symbolic model checking of the real parsers/maps: for every string (resp. key/value/op) within the stated length bounds the solver shows the result equals an independent reference and that no out-of-bounds access or signed overflow is possible. This is the natural level for a pure input-space property; nothing is claimed beyond the bounds.",
    "note": "Trusted: cbmc 6.11 + goto-cc front end + SAT solver, the reference models in harness/C20/*.c. Assumes allocation succeeds, logging is empty. Long digit strings are checked in 'shape' form (fixed positions of prefix/digits/terminator, all characters symbolic) because a fully symbolic layout of >8 bytes exceeds every installed back end.",
}
