"""C01 -- every work unit runs exactly once to completion; none is lost or duplicated."""
from vr import Obl
import importlib

META = {
    "explanation": "Composed of solver-decided steps over the real code: creation publishes exactly once (ABT_thread_create / ABT_task_create), the pools hand each pushed unit out exactly once (C07 steps), "
                   "one scheduler step runs a popped unit exactly once with its own function/argument (ABTI_ythread_schedule), yield re-publishes once after the save (C02 callbacks), "
                   "and the real scheduler loop of sched/basic.c stops only after every unit -- including one that was blocked and is resumed late from another stream -- has run exactly once.",
    "assumptions": [
        "creation from an external thread (descriptor/stack from malloc: the memory-pool provenance is C15)",
        "scheduler loop: one pool, <=1 tasklet and <=1 blocked ULT, event_freq 1, <=5 loop iterations (cut by an unwinding assumption: schedules in which the join request never arrives are not violations)",
        "a ULT the scheduler switches to runs to completion in the model (its body is a ghost); harness pool for the loop, C07 for the real pools; sequential consistency",
    ],
    "outside": ["stacked schedulers, prio/randws/basic_wait scheduler loops", "more than 2 live units per pool, more than one pool per scheduler", "user-defined schedulers (only their pool interface, C14)"],
}
SPIN = ["ABTD_spinlock_acquire.0", "ABTD_spinlock_acquire.1"]


def own_obligations(tier):
    o = []
    for k, nm in [(0, "thread_create"), (1, "task_create")]:
        o.append(Obl("create_" + nm, "C01/create.c", "ABT_%s (named or unnamed): exactly one push, of a READY unit carrying exactly the given function and argument; handle = that unit" % nm,
                     real=["src/task.c"], defs=["KIND=%d" % k], unwind=4, cut_loops=SPIN, object_bits=11, backend="cadical", no_std=["--pointer-overflow-check"],
                     encodes=["ABT_thread_create", "ABT_task_create", "ythread_create", "task_create", "ABTI_thread_init_pool", "ABTI_pool_push"], bounds="one creation", symbolic="named/unnamed", timeout=300))
    for ht, hu in [(1, 1), (0, 1), (1, 0), (0, 0)]:
        o.append(Obl("sched_run_basic_t%du%d" % (ht, hu), "C01/schedrun.c", "real sched_run (basic scheduler) over a pool with %d queued tasklet and %d blocked ULT that another stream resumes at a solver-chosen point; the join/finish request becomes visible at a solver-chosen event check: returns only after the request, pool empty, nothing blocked, every unit run exactly once" % (ht, hu),
                     real=["src/thread.c", "src/ythread.c", "src/sched/sched.c"], hooks=False, defs=["VR_REAL_REQUESTS", "VR_POOLQ_HOOK=vr_poolq", "HAVE_TASK=%d" % ht, "HAVE_ULT=%d" % hu],
                     remove_bodies=["ABTI_thread_handle_request_migrate", "ABTI_thread_handle_request_cancel", "ABTI_thread_free"], unwind=4, cut_loops=SPIN + ["sched_run@while \\(1\\):5"], object_bits=12, backend="cadical",
                     no_std=["--pointer-overflow-check", "--signed-overflow-check", "--undefined-shift-check"],
                     encodes=["sched_run", "ABTI_ythread_schedule", "ABTI_sched_has_to_stop", "ABTI_sched_has_unit", "ABTI_sched_finish", "ABT_thread_resume", "ABTI_ythread_resume_and_push", "ABTI_thread_terminate"],
                     bounds="<=5 scheduler iterations (cut by assumption), <=2 units, event_freq 1", symbolic="when the blocked ULT is resumed (before each pool query / event check), when the join request becomes visible", timeout=400))
    for sc in ("randws", "prio", "basic"):
        for n in ((2, 3, 4) if sc == "randws" else (3,)):
            o.append(Obl("sched_pick_%s_%dpools" % (sc, n), "C01/schedpick.c", "real sched_run of sched/%s.c with %d pools and one unit queued in a solver-chosen pool (pools, scheduling step and stop decision are models): every pool is asked within a bounded number of rounds, the unit is popped and scheduled exactly once whichever pool holds it (RANDWS: rand_r returns consecutive integers from a symbolic start)" % (sc, n),
                         defs=['SCHED_C="sched/%s.c"' % sc, "NPOOLS=%d" % n], unwind=2 * n + 4, backend="cadical", no_std=["--pointer-overflow-check"],
                         encodes=["sched_run (sched/%s.c)" % sc], bounds="%d pools, 1 unit, <= %d rounds" % (n, 2 * n + 2), symbolic="pool holding the unit, start of the rand_r sequence"))
    o.append(Obl("main_sched_func", "C01/mainsched.c", "real thread_main_sched_func around ANY scheduler run function (stub: runs some queued units, may return at any time with units still queued -- as basic_wait and user schedulers do --, join/cancel requests arrive at solver-chosen calls): the stream's scheduler ULT finishes only on cancel, or on a finish request with no unit queued and none blocked",
                 unwind=6, cut_loops=["thread_main_sched_func@while \\(1\\):6"], object_bits=11, restrict_fp=[("thread_main_sched_func.function_pointer_call.1", ["run_stub"])], backend="cadical", no_std=["--pointer-overflow-check"],
                 encodes=["thread_main_sched_func"], bounds="<=3 queued + 1 blocked unit, <=6 calls of the run function (cut by assumption)", symbolic="units run per call, when the run function returns, when join/cancel arrive"))
    o.append(Obl("main_sched_func_replace", "C01/mainsched.c", "real thread_main_sched_func, scheduler REPLACEMENT (the old scheduler's run function returns with REQ_REPLACE): the new scheduler is installed (MAIN, owning the scheduler ULT), the old one released, and only then the waiting caller of ABT_xstream_set_main_sched resumed, exactly once; besides: around ANY scheduler run function (stub: runs some queued units, may return at any time with units still queued -- as basic_wait and user schedulers do --, join/cancel requests arrive at solver-chosen calls): the stream's scheduler ULT finishes only on cancel, or on a finish request with no unit queued and none blocked",
                 defs=["REPLACE"], unwind=6, cut_loops=["thread_main_sched_func@while \\(1\\):6"], object_bits=11, restrict_fp=[("thread_main_sched_func.function_pointer_call.1", ["run_stub"])], backend="cadical", no_std=["--pointer-overflow-check"],
                 encodes=["thread_main_sched_func"], bounds="<=3 queued + 1 blocked unit, <=6 calls of the run function (cut by assumption)", symbolic="units run per call, when the run function returns, when join/cancel arrive"))
    return o


def obligations(tier):
    o = own_obligations(tier)
    C12 = importlib.import_module("props.C12")
    o += [x for x in C12.obligations(tier) if x.name == "schedule_step"]
    C06 = importlib.import_module("props.C06")
    o += [x for x in C06.obligations(tier) if x.name.startswith("counter_yield") or x.name.startswith("stop_")]
    C07 = importlib.import_module("props.C07")
    o += [x for x in C07.obligations(tier) if x.name in ("seq_fifo_shared_push", "seq_fifo_shared_pop", "seq_randws_shared_pop", "seq_fifo_wait_pop", "seq_fifo_shared_remove", "seq_randws_shared_remove", "seq_fifo_wait_remove")]
    C03 = importlib.import_module("props.C03")
    o += [x for x in C03.obligations("quick") if x.name in ("join_many_running_holes", "free_many_holes")]   # units listed after a NULL hole are not skipped: they run to completion before join_many returns
    return o

MANIFEST_ENTRY = {
    "engine": "cbmc-unit+pps",
    "text": "The end-to-end property is decomposed into solver-decided steps over the real code (create -> push once; pool -> pop once; scheduler step -> run once with own argument; scheduler loop -> does not stop before everything ran, including a late-resumed blocked unit). Each step is a bounded symbolic check; the composition argument is in DESIGN.md.",
    "note": "Trusted: cbmc 6.11, the context-switch and pool models, the ghost 'runs to completion' body of a ULT. Not a whole-program result: stacked/user schedulers and the other predefined scheduler loops are outside.",
    "technique": "bounded symbolic model checking (cbmc) of the real C code, decomposed into create / pool / scheduler-step / scheduler-loop obligations with solver-chosen preemption points",
}
