"""C09 -- eventuals and futures become ready exactly once and wake every waiter."""
from vr import Obl, deepen

META = {
    "explanation": "E2: wait and set of eventuals/futures as focus (real code), racing real set/test calls of other agents placed by the solver at every "
                   "atomic instruction and while the focus is parked; ghost bookkeeping of the first successful set, callback count/time, and resume order.",
    "assumptions": [
        "sequential consistency; environment operations complete and well nested; switch/futex/pool models of harness/world.h; spin loops cut by unwinding assumptions",
        "a waiter arriving during a set is a harness model of the enqueue step; sets, tests and the focus are the real code",
        "eventual payload 8 bytes; futures with 0..3 compartments; memcpy is a byte loop",
    ],
    "outside": ["more than 2 racing setters / 1 pre-queued waiter", "payloads larger than 8 bytes", "ABT_eventual_reset / ABT_future_reset racing with waiters (undefined by the API)"],
}
SPIN = ["ABTD_spinlock_acquire.0", "ABTD_spinlock_acquire.1"]
NAMES = ["eventual_wait", "future_wait", "eventual_set", "future_set"]


def obligations(tier):
    o = []
    for f, nm in enumerate(NAMES):
        for fe, fen in ([(0, "ult"), (1, "ext")] if f < 2 else [(0, "ult")]):
            o.append(Obl("%s_%s" % (nm, fen), "C09/wait.c", "ABT_%s by %s as focus with racing real set/test calls of other agents: ready exactly once (first set wins, later sets fail and change nothing), value before ready before wake-up, callback exactly once with all values before ready is observable, test never early, no lost wake-up" % (nm, "a ULT" if fe == 0 else "an external thread"),
                         real=["src/eventual.c", "src/futures.c", "src/ythread.c", "src/arch/abtd_futex.c"], hooks=True, defs=["FOCUS=%d" % f, "FOCUS_EXT=%d" % fe, "VR_SLEEP_STEPS=3"], unwind=4,
                         unwindset=["ABTI_waitlist_wait_and_unlock.1:2", "ABTD_futex_wait_and_unlock.0:2", "memcpy.0:9"], cut_loops=SPIN, object_bits=11, backend="cadical",
                         no_std=["--pointer-overflow-check", "--signed-overflow-check", "--undefined-shift-check"],
                         encodes=["ABT_eventual_wait", "ABT_eventual_set", "ABT_eventual_test", "ABT_future_wait", "ABT_future_set", "ABT_future_test", "ABTI_waitlist_wait_and_unlock", "ABTI_waitlist_broadcast"],
                         bounds="<=2 racing sets, <=1 environment step per scheduling point, <=3 while parked, 0..3 compartments", symbolic="initial readiness/counter, values, placement of every environment step",
                         timeout=600 if tier == "thorough" else 200))
    o.append(Obl("reset_any_state", "C09/reset.c", "ABT_future_reset on a future with n compartments of which k are set (n, k symbolic: unset, PARTIALLY set, ready) and ABT_eventual_reset: afterwards nothing counts as set, test reports not ready, lock released",
                 unwind=3, unwindset=["ABTD_spinlock_acquire.0:2", "ABTD_spinlock_acquire.1:2"], object_bits=10, backend="cadical", encodes=["ABT_future_reset", "ABT_future_test", "ABT_eventual_reset"], bounds="n <= 4", symbolic="n, k, eventual readiness"))
    o += deepen([x for x in o if x.hooks], tier)
    return o

MANIFEST_ENTRY = {
    "engine": "cbmc-unit+pps",
    "text": "Bounded symbolic model checking of the real eventual/future code under preemption-point scheduling with racing setters and observers: the solver covers every placement of the other agents' complete calls; oracles are the first-successful-set ghost, callback counters and a resume-order check inside the pool model.",
    "note": "Trusted: cbmc 6.11, switch/futex/pool models, sequential consistency.",
    "technique": "bounded symbolic model checking (cbmc) of the real C code with solver-chosen preemption points, stuck-predicate formulation of lost wakeups",
}
