"""C10 -- reader-writer lock: writers exclusive, readers shared, nobody stuck."""
from vr import Obl, deepen

META = {
    "explanation": "E1 monitor step: one real rdlock/wrlock/unlock from an arbitrary consistent (reader_count, write_flag) state with 0..2 lockers already blocked; "
                   "when the caller blocks, the monitor state is havocked to any consistent state and a real broadcast wakes it (inductive monitor argument, any number of other threads). "
                   "The underlying mutex and condition variable are the real code; their own concurrency properties are C04/C05.",
    "assumptions": [
        "monitor invariant: never (write_flag and reader_count > 0); lockers wait only while somebody holds",
        "the wait loop is cut after two rounds by an unwinding assumption (each round starts from an arbitrary consistent state)",
        "switch/futex/pool models of harness/world.h; the internal mutex is uncontended during the step (C04 covers contention)",
    ],
    "outside": ["fairness between readers and writers (not stated)", "more than 2 lockers blocked at the moment of an unlock"],
}
SPIN = ["ABTD_spinlock_acquire.0", "ABTD_spinlock_acquire.1"]


def obligations(tier):
    o = []
    for op, nm in [(0, "rdlock"), (1, "wrlock"), (2, "unlock")]:
        o.append(Obl("monitor_" + nm, "C10/monitor.c", "ABT_rwlock_%s from ANY consistent state (reader_count any size_t, write_flag) with 0..2 blocked lockers; havoc of the monitor state on every wait" % nm,
                     real=["src/rwlock.c", "src/cond.c", "src/ythread.c", "src/arch/abtd_futex.c"], hooks=True, defs=["OP=%d" % op, "VR_SLEEP_STEPS=1"], unwind=4,
                     cut_loops=SPIN + ["ABT_rwlock_rdlock@while \\(p_rwlock->write_flag", "ABT_rwlock_wrlock@while \\(\\(p_rwlock->write_flag"], unwindset=["ABTI_mutex_lock_no_recursion.0:2"], object_bits=11, backend="cadical",
                     encodes=["ABT_rwlock_rdlock", "ABT_rwlock_wrlock", "ABT_rwlock_unlock", "ABTI_cond_wait", "ABTI_cond_broadcast", "ABTI_mutex_lock", "ABTI_mutex_unlock"],
                     bounds="one call; wait loop: 2 rounds then cut; 0..2 blocked lockers", symbolic="reader_count, write_flag, number/kind of blocked lockers, monitor state after every wait"))
    o += deepen([x for x in o if x.hooks], tier)
    return o

MANIFEST_ENTRY = {
    "engine": "cbmc-unit",
    "text": "Bounded symbolic model checking of the real rwlock code as a monitor: one step of each operation from an arbitrary consistent state, with the state havocked whenever the caller waits, is the classical inductive monitor proof obligation and covers any number of competing threads and any reader count.",
    "note": "Trusted: cbmc 6.11, the havoc-on-wait model (other threads only produce consistent states), switch/pool models. Progress relies on C05 (no lost wake-up of cond waiters) plus the wakes-everybody assertion here.",
}
