"""C04 -- ABT_mutex: mutual exclusion, recursion, no lost wakeup."""
from vr import Obl, deepen

META = {
    "explanation": "E2 (preemption-point symbolic scheduling): the focus lock/unlock runs the real code; at every atomic builtin the solver may "
                   "place complete real unlock/trylock calls of two other agents; blocking goes through the real suspend callback / the futex model; "
                   "lost wakeups are decided by a stuck predicate.  E1: recursive-mutex steps from arbitrary (owner, nesting) states.",
    "assumptions": [
        "sequential consistency of all atomics; other agents' operations are complete (well-nested) real API calls placed at the focus' atomic instructions",
        "harness pool (slot per ULT, push-once asserted) instead of a real pool: the contract C07 establishes",
        "fcontext layer replaced by the single-stack switch model of harness/world.h (context saved, then the REAL callback runs, then the ULT resumes once re-pushed): the assembly itself is C02's subject",
        "Linux futex model: WAIT compares atomically and sleeps until a WAKE on the word; no spurious returns",
        "spin loops (ABTD_spinlock_acquire) cut by an unwinding assumption: an agent spinning on a lock whose holder is preempted just waits",
        "no cancel/migration requests are pending in these scenarios (asserted unreachable)",
    ],
    "outside": ["schedules in which two operations are both suspended mid-way and resumed in non-LIFO order", "more than 3 agents / more than one blocking waiter at a time", "weak-memory effects", "progress under unbounded unlock sequences"],
}
SPIN = ["ABTD_spinlock_acquire.0", "ABTD_spinlock_acquire.1"]
REAL = ["src/mutex.c", "src/ythread.c", "src/arch/abtd_futex.c"]


def obligations(tier):
    o = []
    depth = 1
    for fe, fen in [(0, "ult"), (1, "ext")]:
        fns = [("ABT_mutex_lock", "ABT_mutex_unlock"), ("ABT_mutex_lock_low", "ABT_mutex_unlock_se"), ("ABT_mutex_lock_high", "ABT_mutex_unlock_de")]
        for lf, uf in fns:
            for he, hen in [(0, "holderult"), (1, "holderext")]:
                if tier == "quick" and lf != "ABT_mutex_lock" and he != fe:
                    continue                     # quick: the low/se and high/de variants with like-kinded holder only
                o.append(Obl("lock_%s_%s_%s" % (fen, lf.replace("ABT_mutex_", ""), hen), "C04/lock.c",
                             "%s by %s as focus; mutex free or held by %s; holder's %s and a third agent's trylock/unlock placed by the solver at every atomic instruction incl. while the focus is parked: mutual exclusion, trylock iff free, lock word held on return, no lost wakeup (stuck predicate), blocked counter balanced" % (
                                 lf, "a ULT" if fe == 0 else "an external thread (futex path)", "a ULT on another stream" if he == 0 else "an external thread", uf),
                             real=REAL, hooks=True, defs=["FOCUS_EXT=%d" % fe, "HOLDER_EXT=%d" % he, "LOCKFN=" + lf, "UNLOCKFN=" + uf, "VR_MAXDEPTH=%d" % depth, "VR_SLEEP_STEPS=%d" % (3 if fe == 0 else 2)],
                             unwind=4, unwindset=[] if fe == 0 else ["ABTI_waitlist_wait_and_unlock.1:1", "ABTD_futex_wait_and_unlock.0:1", "ABTI_mutex_lock_no_recursion.0:3"], cut_loops=SPIN, object_bits=11, backend="cadical",
                             no_std=["--pointer-overflow-check", "--signed-overflow-check", "--undefined-shift-check"],
                             encodes=[lf, uf, "ABT_mutex_trylock", "ABTI_mutex_lock_no_recursion", "ABTI_waitlist_wait_and_unlock", "ABTI_waitlist_broadcast", "ABTI_ythread_suspend_unlock",
                                      "ABTI_ythread_callback_suspend_unlock", "ABTI_ythread_resume_and_push", "ABTD_futex_wait_and_unlock", "ABTD_futex_broadcast"],
                             bounds="3 agents, <=1 environment operation per scheduling point, nesting depth %d, <=3 environment steps while parked, retry loops unwound 3-4x (unwinding assertions on all loops except the cut spin loops)" % depth,
                             symbolic="initial state (free/held), which agent acts at which atomic instruction, how often", timeout=600 if tier == "thorough" else 150))
    for init, nm in [(0, "dynamic"), (1, "static_initializer")]:
        o.append(Obl("recursive_step_%s" % nm, "C04/recursive.c", "recursive mutex (%s): ONE lock/lock_low/lock_high/trylock/spinlock/unlock/unlock_se/unlock_de from ANY consistent (owner, nesting depth 0..INT_MAX-1) state: depth counts exactly, released only by the outermost unlock, non-owner trylock refused and changes nothing" % nm,
                     real=["src/mutex.c"], defs=["INIT=%d" % init], unwind=3, cut_loops=SPIN, backend="cadical",
                     encodes=["ABT_mutex_lock", "ABT_mutex_lock_low", "ABT_mutex_lock_high", "ABT_mutex_trylock", "ABT_mutex_spinlock", "ABT_mutex_unlock", "ABT_mutex_unlock_se", "ABT_mutex_unlock_de", "ABTI_mutex_lock", "ABTI_mutex_unlock"],
                     bounds="one step; nesting depth any value in [0, INT_MAX)", symbolic="owner (none/caller/other), nesting depth, operation"))
    o += deepen([x for x in o if x.hooks and x.name.startswith('lock_ult_lock_holder')], 'thorough', extra_defs=('VR_RESUME_ELSEWHERE',), suffix='_resumed_elsewhere', timeout=400, object_bits=14, mem_gb=10)
    for x in o:
        if x.name.endswith('_resumed_elsewhere'): x.tiers = ('quick', 'thorough')
    o += deepen([x for x in o if x.hooks and '_lock_holder' in x.name and not x.name.endswith('_resumed_elsewhere')], tier)
    return o

MANIFEST_ENTRY = {
    "engine": "cbmc-unit+pps",
    "text": "Bounded symbolic model checking of the real mutex code under preemption-point scheduling: for every placement of the other agents' complete unlock/trylock operations at the atomic instructions of the focus lock (including while it is parked) the solver shows mutual exclusion, trylock-iff-free, and absence of a lost wakeup (stuck predicate). Recursive-mutex counting is checked as an inductive step from arbitrary owner/nesting states.",
    "note": "Trusted: cbmc 6.11, the switch/futex/pool models of harness/world.h, sequential consistency. Not covered: non-nested overlaps of two partially executed operations, more than one simultaneously blocked waiter, unbounded progress.",
    "technique": "bounded symbolic model checking (cbmc) of the real C code with solver-chosen preemption points (environment = complete real API calls), stuck-predicate formulation of lost wakeups",
}
