"""C14 -- user-defined pools: consistent unit <-> work-unit mapping."""
from vr import Obl

META = {
    "explanation": "E1: one inductive step of the real unit->work-unit hash map (unit.c) from a bucket chain of 0..3 live/tombstoned entries; "
                   "E2: the same step while another stream performs one complete real map/unmap in the same bucket at a solver-chosen point; "
                   "E1: association steps (ABTI_thread_init_pool / set_associated_pool / unset_associated_pool) over built-in and user pools with counting create_unit/free_unit stubs.",
    "assumptions": [
        "unit handles are concrete values chosen to collide in one bucket (checked with the real hash function); a symbolic bucket index over 256 entries is beyond cbmc",
        "typed arena for map entries (one cache line each); allocation succeeds (C18 covers failure)",
        "map_race obligations: only read-modify-write atomics (lock acquisitions) are scheduling points (-DVR_SP_LOCKS_ONLY), i.e. the check-then-lock windows; sequential consistency",
        "user pool callbacks are counting stubs that hand out fresh unit handles",
        "the legacy ABT_pool_def adapter functions (pool_*_wrapper) are removed from the encoding and shown unreachable (cbmc no-body property): with them, function-pointer resolution recurses",
    ],
    "outside": ["chains longer than 3 entries + 2 new", "behaviour of arbitrary user scheduler/pool code", "missing release/acquire ordering (not visible under sequential consistency)"],
}
SPIN = ["ABTD_spinlock_acquire.0", "ABTD_spinlock_acquire.1"]
ENC = ["unit_map_thread", "unit_unmap_thread", "unit_get_thread_from_user_defined_unit", "unit_get_hash_index", "ABTI_unit_map_thread", "ABTI_unit_unmap_thread"]


def obligations(tier):
    o = []
    for op, nm in [(0, "map"), (1, "unmap"), (2, "lookup")]:
        for n in range(4):
            if op and n == 0:
                continue
            o.append(Obl("unitmap_%s_%d" % (nm, n), "C14/unitmap.c", "bucket chain of %d entries (each live or tombstone, symbolic): ONE %s, then every live unit looked up: mapping exact, tombstone reuse correct, one entry per mapped unit, lock released" % (n, nm),
                         defs=["OP=%d" % op, "NPRE=%d" % n], unwind=7, cut_loops=SPIN, object_bits=10, backend="cadical", encodes=ENC, bounds="chain length %d" % n, symbolic="live/tombstone pattern, stale thread pointers, operated unit"))
    for n in ([1, 2] if tier == "quick" else [1, 2, 3]):
        o.append(Obl("unitmap_map_race_%d" % n, "C14/unitmap.c", "map of a new unit while ANOTHER stream maps a different unit of the same bucket (complete real call) at a solver-chosen lock acquisition: both units translatable afterwards, no entry claimed twice",
                     defs=["OP=0", "NPRE=%d" % n, "PPS", "ENVOP=0", "VR_SP_LOCKS_ONLY"], unwind=7, cut_loops=SPIN, object_bits=11, backend="cadical", encodes=ENC, timeout=900 if tier == "thorough" else 150,
                     bounds="chain length %d, one concurrent map" % n, symbolic="live/tombstone pattern, placement of the concurrent map"))
    if tier == "thorough":
        for eo, en in [(1, "unmap")]:   # (the "map" variant gives no verdict within 20 GB / 1500 s: cbmc reports ERROR for some properties; not offered)
            o.append(Obl("unitmap_lookup_race_%s" % en, "C14/unitmap.c", "lock-free lookup of a unit that stays mapped while another stream performs a complete real %s of a different unit in the same bucket at any atomic instruction" % en,
                         defs=["OP=2", "NPRE=%d" % (1 if eo == 0 else 2), "PPS", "ENVOP=%d" % eo], unwind=7, cut_loops=SPIN, object_bits=11, backend="cadical", encodes=ENC, timeout=1500, mem_gb=20, bounds="chain length %d" % (1 if eo == 0 else 2), symbolic="placement of the concurrent update"))
    WR = ["pool_create_unit_wrapper", "pool_free_unit_wrapper", "pool_free_wrapper", "pool_get_size_wrapper", "pool_init_wrapper", "pool_is_empty_wrapper", "pool_pop_many_wrapper",
          "pool_pop_wait_wrapper", "pool_pop_wrapper", "pool_print_all_wrapper", "pool_push_many_wrapper", "pool_push_wrapper"]
    for op, nm, d in [(0, "thread_set_associated_pool", "ABTI_thread_set_associated_pool (migration / push to another pool)"), (1, "unit_set_associated_pool", "ABTI_unit_set_associated_pool (ABT_unit_set_associated_pool)"),
                      (2, "pool_push_threads_ex", "ABT_pool_push_threads_ex (batch push, pool.c)"), (3, "unset_associated_pool", "ABTI_thread_unset_associated_pool (free)")]:
        o.append(Obl("assoc_" + nm, "C14/assoc.c", "work unit associated with built-in / user pool A / user pool B (symbolic) -> %s towards a symbolic target pool: create_unit exactly once when an association with a user pool begins, free_unit exactly once when it ends, never a freed or foreign unit used, live unit translates back, pushed handle is the live one" % d,
                     defs=["OP=%d" % op], unwind=5, cut_loops=SPIN, object_bits=11, backend="cadical", remove_bodies=WR,
                     encodes=["ABTI_thread_init_pool", "ABTI_thread_set_associated_pool", "ABTI_unit_set_associated_pool", "ABTI_thread_unset_associated_pool", "pool_push_threads_ex", "ABTI_unit_map_thread", "ABTI_unit_unmap_thread"],
                     bounds="one work unit, 3 pools, one operation", symbolic="source pool, target pool"))
    for op, nm in [(0, "pop"), (1, "pop_many"), (2, "push"), (3, "is_empty")]:
        o.append(Obl("legacy_" + nm, "C14/legacy.c", "adapters of legacy (ABT_pool_def) user pools in pool.c, %s: exactly the units the user pool hands out are translated and returned -- for pop_many min(len, size) units and not one more taken out of the pool; pushes reach the pool once each, in order; emptiness = size 0" % nm,
                     defs=["OP=%d" % op], unwind=6, object_bits=10, backend="cadical", no_std=["--pointer-overflow-check"],
                     restrict_fp=[("pool_push_wrapper.function_pointer_call.1", ["u_push"]), ("pool_push_many_wrapper.function_pointer_call.1", ["u_push"])] if op == 2 else [],
                     encodes=["pool_pop_wrapper", "pool_pop_wait_wrapper", "pool_pop_many_wrapper", "pool_push_wrapper", "pool_push_many_wrapper", "pool_is_empty_wrapper", "pool_get_size_wrapper"],
                     bounds="user pool of 0..4 units, buffer length 0..4", symbolic="pool size, buffer length, which variant"))
    o.append(Obl("unitmap_dup_key", "C14/unitdup.c", "bucket with TWO live entries of one key (a unit moving between two user pools that use the same handle value: the new mapping is created before the old one is removed): ABTI_unit_unmap_thread removes exactly one, the unit stays translatable",
                 unwind=5, cut_loops=SPIN, object_bits=10, backend="cadical", encodes=["ABTI_unit_unmap_thread", "ABTI_unit_get_thread_from_user_defined_unit"], bounds="chain of 3", symbolic="positions of the duplicate entries, third entry live or tombstone"))
    o.append(Obl("sched_free_order", "C14/schedfree.c", "real ABTI_sched_free of a scheduler with 1..2 pools (user-defined or built-in, automatic or not, shared or not, forced or not: symbolic) whose ULT is associated with its first pool (main scheduler), its second pool or an unrelated pool: the ULT's unit goes back to its pool exactly once and while that pool is alive; pools are freed iff automatic and unshared (or forced), exactly once",
                 unwind=4, cut_loops=["ABTD_spinlock_acquire.0", "ABTD_spinlock_acquire.1"], object_bits=11, backend="cadical", no_std=["--pointer-overflow-check"], flags=["--memory-leak-check"],
                 encodes=["ABTI_sched_free", "ABTI_thread_unset_associated_pool", "ABTI_pool_release"], bounds="<=2 pools", symbolic="pool kinds, automatic flags, sharing, force flag, where the scheduler ULT lives"))
    return o

MANIFEST_ENTRY = {
    "engine": "cbmc-unit+pps",
    "text": "Bounded symbolic model checking of the real unit map: one inductive step from every chain length 0..3 with symbolic live/tombstone patterns covers map/unmap histories of any length within the bound; the racing-map obligations place another stream's complete real map at the lock-acquisition points of the focus.",
    "note": "Trusted: cbmc 6.11, typed arena, concrete colliding unit handles, sequential consistency. Create/free-unit pairing through the pool layer is covered where the evidence lists assoc_* obligations.",
}
