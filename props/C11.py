"""C11 -- suspend/resume and directed switches hand control exactly as documented."""
from vr import Obl, deepen

META = {
    "explanation": "E2/E1: each directed-switch primitive (real front end in self.c/thread.c, real inline switch code, real post-switch callback) up to the first instruction of the target, "
                   "for a symbolic target (same/other pool, started/never started); ABT_self_suspend with a resumer on another stream acting the moment BLOCKED becomes observable.",
    "assumptions": [
        "switch model of harness/world.h: context saved, then the REAL callback, then the state is inspected at the moment the target starts running (the target's body is a ghost marker)",
        "harness pool with remove/is_in_pool; sequential consistency; one switch per obligation (chains are the same step from an arbitrary state)",
        "ABT_thread_create_to / revive_to are not covered (creation goes through the memory layer)",
    ],
    "outside": ["chains of more than one directed switch", "create_to / revive_to", "tasklet callers (rejected)"],
}
SPIN = ["ABTD_spinlock_acquire.0", "ABTD_spinlock_acquire.1", "ABTI_ythread_atomic_get_joiner@while", "ABTI_ythread_resume_joiner@while"]
PRIMS = ["self_yield_to", "thread_yield_to", "self_suspend_to", "self_resume_yield_to", "self_resume_suspend_to", "self_exit_to", "self_resume_exit_to"]


def own_obligations(tier):
    o = []
    for i, nm in enumerate(PRIMS):
        o.append(Obl("directed_" + nm, "C11/directed.c", "ABT_%s towards a symbolic target (same or other pool, started or not): the target runs next on the calling stream, RUNNING, out of its pool, parent inherited; the caller ends up READY-in-pool / BLOCKED-and-counted / TERMINATED as documented; blocked counters balanced%s" % (
                         nm, "; a target popped away by another stream between the readiness check and the remove makes the call fail with the counters restored" if i == 1 else ""),
                     real=["src/self.c", "src/thread.c", "src/ythread.c"], hooks=True, defs=["PRIM=%d" % i, "VR_REAL_REQUESTS"], unwind=4, cut_loops=SPIN, object_bits=12, backend="cadical",
                     no_std=["--pointer-overflow-check", "--signed-overflow-check", "--undefined-shift-check"],
                     encodes=["ABT_" + nm, "ABTI_ythread_yield_to", "ABTI_ythread_thread_yield_to", "ABTI_ythread_suspend_to", "ABTI_ythread_resume_yield_to", "ABTI_ythread_resume_suspend_to", "ABTI_ythread_exit_to", "ABTI_ythread_resume_exit_to",
                              "ABTI_ythread_switch_to_sibling_internal", "ABTI_ythread_jump_to_sibling_internal"],
                     bounds="one directed switch between 2 ULTs", symbolic="target's pool (same/other), started or not, whether another stream pops it meanwhile", timeout=300))
    o += deepen([x for x in o if x.hooks], tier)
    return o


def obligations(tier):
    o = own_obligations(tier)
    import importlib as _il
    C06 = _il.import_module("props.C06")
    names = {x.name for x in o}
    o += [x for x in C06.own_obligations(tier) if x.name.startswith("counter_") and x.name not in names]
    return o

MANIFEST_ENTRY = {
    "engine": "cbmc-unit+pps",
    "text": "Bounded symbolic model checking of the real directed-switch primitives: one switch from a symbolic configuration of caller and target, checked at the instant the target starts running (after the real post-switch callback). Longer chains are repetitions of this step from states the step itself produces.",
    "note": "Trusted: cbmc 6.11, the switch and pool models, sequential consistency. The suspend/resume race with a remote resumer is covered by C02's callback obligations (publish-last) and C06's counter obligations.",
    "technique": "bounded symbolic model checking (cbmc) of the real C code with a context-switch model and solver-chosen preemption points",
}
