"""C17 -- execution-stream ranks are unique; stream lifecycle is repeatable."""
from vr import Obl

META = {
    "explanation": "E1: one inductive step of each rank-management routine of stream.c from an arbitrary valid stream list",
    "assumptions": [
        "list invariant: doubly linked, strictly increasing ranks >= 0, head = primary stream with rank 0 (its rank cannot be changed and ranks are non-negative, "
        "so nothing is ever inserted before it), num_xstreams == length, max_xstreams above every live rank, list lock free",
        "requested ranks < INT_MAX (xstream_update_max_xstreams computes rank+1)",
        "links of streams outside the list are stale: NULL or pointers to other stream objects",
        "snprintf/fprintf have empty bodies; allocation succeeds",
    ],
    "outside": ["more than 3 live streams before the step", "real pthread creation/affinity", "native-thread state machine: each side is checked against a model of the other (assume-guarantee), pthread mutex/cond semantics are the stubs of harness/C17/native.c"],
}
SPIN = ["ABTD_spinlock_acquire.0:2"]


def obligations(tier):
    o = []
    for op, nm, d in [(0, "set_new_rank", "new stream: automatic rank = smallest unused; requested rank granted iff free; list stays sorted/linked, get_num exact"),
                      (1, "change_rank", "ABT_xstream_set_rank core: granted iff free or unchanged; stream re-inserted at the right place"),
                      (2, "return_rank", "free: stream unlinked, get_num decremented, its rank immediately reusable")]:
        o.append(Obl("ranks_" + nm, "C17/ranks.c", "xstream_%s from ANY valid list of 0..3 live streams with symbolic ranks: %s" % (nm, d),
                     defs=["OP=%d" % op], unwind=6, unwindset=SPIN, backend="cadical", encodes=["xstream_" + nm, "xstream_add_xstream_list", "xstream_remove_xstream_list", "xstream_update_max_xstreams", "ABT_xstream_get_num"],
                     bounds="0..3 live streams, ranks any int in [0, INT_MAX)", symbolic="list length, ranks, requested rank, which stream, stale links"))
    o.append(Obl("xstream_create_ladder", "C17/create_ladder.c", "xstream_create with a failure at a symbolic stage (descriptor allocation, local memory pools, root ULT, root pool, main-scheduler ULT, native thread) or a taken rank, on a list of 1..2 live streams: everything acquired is released exactly once, the rank is returned, get_num and the list are as before, scheduler reusable; success path registers the stream with the smallest unused / requested rank",
                 unwind=5, cut_loops=["ABTD_spinlock_acquire.0", "ABTD_spinlock_acquire.1"], object_bits=10, backend="cadical", encodes=["xstream_create", "xstream_set_new_rank", "xstream_return_rank", "ABT_xstream_get_num"],
                 bounds="1..2 live streams, 7 failure positions", symbolic="failing stage, requested rank, existing ranks"))
    for br, nm, d in [(1, "other_stream", "replacing the main scheduler of another (joined, WAITING) stream, first pool of the new scheduler built-in or user-defined with failing unit creation/registration (symbolic): success hands the scheduler ULT over completely; failure changes nothing (old scheduler still main, new one unused)"),
                      (2, "own_stream", "ABT_xstream_set_main_sched from a ULT of the same stream sitting in a solver-chosen pool; old and new scheduler have 1..3 pools: at the switch the caller is re-associated with the new scheduler's first pool iff it sat in a pool of the old scheduler, the replacement and waiter are recorded, an earlier pending replacement is discarded and its waiter resumed once")]:
        o.append(Obl("main_sched_" + nm, "C17/mainsched.c", d, defs=["BR=%d" % br], unwind=5, object_bits=11, backend="cadical", no_std=["--pointer-overflow-check"],
                     encodes=["xstream_update_main_sched", "ABTI_thread_set_associated_pool", "ABTI_ythread_suspend_replace_sched", "ABTI_ythread_resume_and_push"],
                     bounds="1..3 pools per scheduler, one pending replacement", symbolic="numbers of pools, the caller's pool, automatic flags, pending replacement, failure of the user-defined pool"))
    for m, nm, d in [(0, "thread_func", "focus = the REAL native-thread function; controller (join / revive / free) as a model acting at its lock acquisitions, while the stream runs and while it sleeps (spurious wake-ups allowed)"),
                     (1, "controller", "focus = the REAL ABTD_xstream_context_join / revive / free in the order join, [revive, join], free; the native thread as a model of the thread function's steps")]:
        o.append(Obl("native_" + nm, "C17/native.c", "native-thread state machine (arch/abtd_stream.c), " + d + ": the stream's main function runs exactly once per create/revive and never after free, join returns only after the run has finished, every awaited state change is followed by a signal to a sleeper (no lost wake-up), spurious wake-ups change nothing, free returns only after the thread has left",
                     defs=["MODE=%d" % m], unwind=5, cut_loops=["xstream_context_thread_func@while \\(p_ctx->state == ABTD_XSTREAM_CONTEXT_STATE_WAITING:4", "ABTD_xstream_context_join@while \\(p_ctx->state == ABTD_XSTREAM_CONTEXT_STATE_REQ_JOIN:4"], object_bits=10, backend="cadical",
                     encodes=["xstream_context_thread_func", "ABTD_xstream_context_join", "ABTD_xstream_context_revive", "ABTD_xstream_context_free"],
                     bounds="create + <=1 revive + free; <=3 steps of the other party per sleep; <=3 spurious wake-ups per wait loop (cut by assumption)", symbolic="when the other party acts, spurious wake-ups, whether the stream is revived"))
    o.append(Obl("xstream_revive", "C17/revive.c", "real ABT_xstream_revive from any state of the stream (scheduler ULT TERMINATED or not; arbitrary stale request bits on the scheduler -- the FINISH of the previous join -- and on its ULT; caller a ULT or an external thread): afterwards the scheduler has no pending request, its ULT is revived once into the root pool, the stream reads RUNNING, the native thread is released exactly once and last; a running stream is refused untouched",
                 unwind=3, unwindset=SPIN, backend="cadical", encodes=["ABT_xstream_revive"], bounds="one call", symbolic="stale request bits of scheduler and ULT, ULT state, caller kind"))
    import importlib
    c01 = importlib.import_module("props.C01")
    o += [x for x in c01.own_obligations(tier) if x.name == "main_sched_func_replace"]
    return o

MANIFEST_ENTRY = {
    "engine": "cbmc-unit",
    "text": "Bounded symbolic model checking of the real rank-management code (stream.c): one step from an arbitrary valid list of live streams with symbolic ranks covers every create/set_rank/free history over lists within the size bound.",
    "note": "Trusted: cbmc 6.11, the list invariant in harness/C17/ranks.c. The native-thread join/revive state machine and main-scheduler replacement are covered by separate obligations where listed in the evidence; real pthread behaviour is outside.",
}
