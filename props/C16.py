"""C16 -- work-unit-local storage: per-unit key->value map, exactly-once destructors."""
from vr import Obl

META = {
    "explanation": "E1: one inductive step of the real ABTI_ktable_set/get + ABTI_ktable_free from a key table holding 0..3 chained entries "
                   "(symbolic key ids, values, destructor presence) laid out exactly as the real code lays them out (validated by a constructor obligation); "
                   "E2 variant: a second work unit performs one complete real set on the same table at a solver-chosen atomic instruction.",
    "assumptions": [
        "key table size 1 (every key collides: the chain logic is exercised maximally; slot selection id & (size-1) for larger tables is outside)",
        "typed arena instead of cbmc's untyped malloc: 128-byte descriptor blocks (ABTI_MEM_POOL_DESC_SIZE rounded to the cache line), memset(0) on fresh blocks is a no-op",
        "caller is an external thread (descriptor blocks come from malloc rather than the memory pool: C15's subject)",
        "sequential consistency; the concurrent set (ktable_race_*) is a harness MODEL of the other unit's completed set (net effect: append/overwrite of the new key), placed at an atomic instruction of the real focus set; running the real set concurrently makes the encoding intractable",
    ],
    "outside": ["key tables with more than one slot other than the malloc'ed 16-slot table of ktable_big (slots 0 and 15)", "more than 4 keys per unit", "front-end argument checks of ABT_key_set/get, ABT_self_*_specific"],
}
SPIN = ["ABTD_spinlock_acquire.0", "ABTD_spinlock_acquire.1", "ABTI_ktable_set.0", "ABTI_ktable_set.1"]
ENC = ["ABTI_ktable_set", "ABTI_ktable_set_impl", "ABTI_ktable_get", "ABTI_ktable_create", "ABTI_ktable_alloc_elem", "ABTI_ktable_free", "ABTI_mem_alloc_desc", "ABTI_mem_free_desc"]


def obligations(tier):
    o = [Obl("ktable_layout", "C16/ktable.c", "constructor validation: create + three sets by the real code produce exactly the table layout the step obligations start from",
             defs=["BUILD"], unwind=6, cut_loops=SPIN, object_bits=10, backend="cadical", encodes=ENC, bounds="3 keys", symbolic="key ids, values, destructors")]
    for n in range(4):
        o.append(Obl("ktable_step_%d" % n, "C16/ktable.c", "table with %d chained entries: ONE set/get of an existing or a new key, whole map read back, then ABTI_ktable_free: get = last set (NULL if none), one entry per key, destructor exactly once per non-NULL value, every block released once" % n,
                     defs=["NPRE=%d" % n], unwind=6, cut_loops=SPIN, object_bits=10, backend="cadical", encodes=ENC, bounds="chain length %d (+1)" % n, symbolic="key ids, values, destructor presence, which key, operation"))
    o.append(Obl("ktable_step_lazy", "C16/ktable.c", "unit without a table: first set creates it lazily; get on a unit without table returns NULL", defs=["NPRE=0", "LAZY"], unwind=6, cut_loops=SPIN, object_bits=10, backend="cadical", encodes=ENC,
                 bounds="empty unit", symbolic="key, value, operation"))
    for nm, defs in [("empty", ["NPRE=0", "FOCUSKEY=3"]), ("lazy", ["NPRE=0", "LAZY", "FOCUSKEY=3"])] + ([("chain1", ["NPRE=1", "FOCUSKEY=3"]), ("chain1_otherkey", ["NPRE=1", "FOCUSKEY=0"]), ("chain2", ["NPRE=2", "FOCUSKEY=3"])] if tier == "thorough" else []):
        o.append(Obl("ktable_race_%s" % nm, "C16/ktable.c", "set by the owner while ANOTHER work unit's completed set of the new key lands at a solver-chosen atomic instruction (lazy creation / append race): one entry per key, one of the two values stored, destructors and memory exactly once",
                     defs=defs + ["PPS"], unwind=7, cut_loops=SPIN, object_bits=11, backend="cadical", encodes=ENC, timeout=900 if tier == "thorough" else 150, mem_gb=14 if tier == "thorough" else None,
                     bounds="one concurrent set, placed at any atomic instruction of the focus at which the table lock is free", symbolic="placement of the concurrent set, key ids, values, destructors"))
    o.append(Obl("key_ids", "C16/keyid.c", "4 solver-chosen ABT_key_create / ABT_key_free operations on 3 handles from an arbitrary id counter: an id is never handed out twice, not even after the key was freed (its entries may still live in work units), and never collides with the runtime's reserved keys",
                 unwind=5, object_bits=10, backend="cadical", encodes=["ABT_key_create", "ABT_key_free"], bounds="4 operations, 3 handles, counter below 2^32-16", symbolic="operation sequence, counter start, destructor presence"))
    o.append(Obl("ktable_big", "C16/ktable_big.c", "key table LARGER than a pooled descriptor (16 slots: malloc'ed table without spare room): lazy creation, two keys in the first/last slot (colliding or not), overwrite, read back, free: every access stays inside a block that was handed out, map semantics, destructors and blocks exactly once",
                 unwind=4, unwindset=["ABTI_ktable_free.1:17", "main.0:16", "memset.0:16"], cut_loops=SPIN, object_bits=10, backend="cadical", encodes=ENC, bounds="ABT_KEY_TABLE_SIZE = 16, 2 keys, first key in slot 15, second in slot 0 or 15", symbolic="key ids (slot first or last), values, destructor presence"))
    import importlib as _il
    C18 = _il.import_module("props.C18")
    o += [x for x in C18.own_obligations(tier) if x.name in ("ktable_lazy_create", "ktable_grow_fail")]
    C01 = _il.import_module("props.C01")
    o += [x for x in C01.own_obligations(tier) if x.name in ("create_thread_create", "create_task_create")]   # the key table pointer of a new unit is initialised BEFORE the unit is published
    return o

MANIFEST_ENTRY = {
    "engine": "cbmc-unit+pps",
    "text": "Bounded symbolic model checking of the real key-table code: one inductive step (set/get then free) from every chain length 0..3 with symbolic keys/values/destructors covers operation histories of any length over tables within the size bound; the oracle is a ghost map plus destructor call counters and an allocation ledger.",
    "note": "Trusted: cbmc 6.11, the typed-arena memory model and the pre-state layout (validated against the real constructor). Key tables with more than one slot and the memory-pool provenance of blocks are outside.",
}
