/* C02-O4: publication order inside the post-switch callbacks of ythread.c.
 * The callback runs (real code) on the scheduler's side after ULT0's context has been saved.  Its argument structure lives
 * on ULT0's stack.  As soon as ULT0 becomes RESUMABLE for another execution stream (per callback kind: BLOCKED visible /
 * BLOCKED visible and the lock released / link published / pushed to its pool), the solver may -- at any later atomic
 * instruction of the callback -- let another stream resume and run ULT0: the argument structure and ULT0's own fields are
 * then overwritten (havoc on resume).  A callback that still depends on them afterwards misbehaves visibly: a wrong lock
 * is released, a wrong counter is changed, a pointer check fails.  Also asserted at every atomic instruction: the lock is
 * never free while ULT0 is not yet BLOCKED (a waker could find a still RUNNING ULT in the wait-list). */
#include "vr_hooks.h"
#include "abti.h"
#include "world.h"
#include "stub_io.h"
static ABTD_spinlock LOCK, OTHERLOCK;
static ABTI_sched MSCHED;
static struct { ABTI_ythread *a; void *b; } ARG;       /* lives on ULT0's stack */
static int resumed_elsewhere, early_unlock, bad_run;
static void env_step(void) {}
static void vr_after_switch(int k) {}
static void vr_stuck(const char *w) {}
static int resumable(void)
{
#if KIND == 0      /* ABTI_ythread_callback_suspend (ABT_self_suspend, suspend_to) */
    return ULT0.thread.state.val == ABT_THREAD_STATE_BLOCKED;
#elif KIND == 1    /* suspend_unlock (mutex/cond/barrier/eventual/future waits) */
    return ULT0.thread.state.val == ABT_THREAD_STATE_BLOCKED && LOCK.val.val == 0;
#elif KIND == 2    /* suspend_join: the exiting target resumes the joiner once p_link is published */
    return ULT1.ctx.p_link.val.val != NULL;
#elif KIND == 3    /* suspend_replace_sched: the main scheduler resumes the waiter once the request is visible */
    return (MSCHED.request.val & ABTI_SCHED_REQ_REPLACE) != 0;
#elif KIND == 4    /* resume_suspend_to */
    return ULT0.thread.state.val == ABT_THREAD_STATE_BLOCKED;
#else              /* yield-type callbacks: resumable once pushed back */
    return sp_in[0];
#endif
}
void vr_check(void)
{
    if (vr_in_init) return;
#if KIND == 1
    if (LOCK.val.val == 0 && ULT0.thread.state.val != ABT_THREAD_STATE_BLOCKED) early_unlock = 1;
#endif
    if (!resumed_elsewhere && resumable() && nondet_bool()) {
        /* another stream pops/resumes ULT0 and runs it: its stack frame (ARG) is reused, its descriptor fields change */
        if (ULT0.thread.state.val != ABT_THREAD_STATE_BLOCKED && ULT0.thread.state.val != ABT_THREAD_STATE_READY && KIND != 2 && KIND != 3) bad_run = 1;
        resumed_elsewhere = 1;
        ARG.a = nondet_bool() ? &ULT2 : NULL; ARG.b = nondet_bool() ? (void *)&OTHERLOCK : NULL;
        ULT0.thread.state.val = ABT_THREAD_STATE_RUNNING; ULT0.thread.p_pool = &PL2; ULT0.thread.p_last_xstream = &ES2; sp_in[0] = 0;
    }
}
#define vr_sp_body vr_check
int main(void)
{
    world_init();
    ES0.p_thread = &SCHED0.thread;          /* the callback runs on the scheduler's side */
    ULT0.thread.state.val = ABT_THREAD_STATE_RUNNING;
    LOCK.val.val = 1; OTHERLOCK.val.val = 1;
    ULT1.thread.state.val = ABT_THREAD_STATE_BLOCKED; PL1.num_blocked.val = 1;   /* ULT1 = p_next / join target where needed */
    MSCHED.request.val = 0;
#if KIND <= 4
    /* a cancellation request may be pending: it must NOT be executed at a blocking point (the unit is already on a waiter
     * list / being handed over); it is served at the unit's next yield or scheduling */
    if (nondet_bool()) ULT0.thread.request.val = ABTI_THREAD_REQ_CANCEL;
#endif
    vr_in_init = 0;
#if KIND == 0
    ABTI_ythread_callback_suspend(&ULT0);
    VR_ASSERT(PL0.num_blocked.val == 1, "suspend: blocked counter of the ULT's original pool incremented exactly once");
#elif KIND == 1
    ARG.a = &ULT0; ARG.b = &LOCK;
    ABTI_ythread_callback_suspend_unlock(&ARG);
    VR_ASSERT(LOCK.val.val == 0 && OTHERLOCK.val.val == 1, "suspend_unlock releases exactly the lock it was given, also if the ULT is resumed at once");
    VR_ASSERT(!early_unlock, "the lock is never free while the ULT is not yet BLOCKED");
    VR_ASSERT(PL0.num_blocked.val == 1 && PL2.num_blocked.val == 0, "blocked counter of the original pool incremented exactly once");
#elif KIND == 2
    ARG.a = &ULT0; ARG.b = &ULT1; ULT1.thread.state.val = ABT_THREAD_STATE_RUNNING;
    ABTI_ythread_callback_suspend_join(&ARG);
    VR_ASSERT(ULT1.ctx.p_link.val.val == (void *)&ULT0.ctx, "suspend_join publishes the joiner's context in the target's p_link");
    VR_ASSERT(PL0.num_blocked.val == 1 && PL2.num_blocked.val == 0, "blocked counter incremented exactly once");
#elif KIND == 3
    ARG.a = &ULT0; ARG.b = &MSCHED;
    ABTI_ythread_callback_suspend_replace_sched(&ARG);
    VR_ASSERT((MSCHED.request.val & ABTI_SCHED_REQ_REPLACE) != 0 && PL0.num_blocked.val == 1, "replace request raised after the waiter is BLOCKED and counted");
#elif KIND == 4
    ARG.a = &ULT0; ARG.b = &ULT1; ULT1.thread.p_pool = &PL1;
    ABTI_ythread_callback_resume_suspend_to(&ARG);
    VR_ASSERT(PL0.num_blocked.val == 1 && PL1.num_blocked.val == 0 && PL2.num_blocked.val == 0, "resume_suspend_to moves the blocked count from the target's pool to the caller's pool");
#elif KIND == 5
    ABTI_ythread_callback_yield_user_yield(&ULT0);
    VR_ASSERT(resumed_elsewhere || sp_in[0], "yield: the ULT is back in its pool unless somebody already took it");
#elif KIND == 6
    PL0.num_blocked.val = 1;                /* ABT_thread_yield_to pre-increments */
    ABTI_ythread_callback_thread_yield_to(&ULT0);
    VR_ASSERT(PL0.num_blocked.val == 0 && PL2.num_blocked.val == 0, "thread_yield_to: the pre-incremented count of the ORIGINAL pool is taken back, whatever happens to the ULT after the push");
#elif KIND == 7
    ARG.a = &ULT0; ARG.b = &ULT1; ULT1.thread.p_pool = &PL1;
    ABTI_ythread_callback_resume_yield_to(&ARG);
    VR_ASSERT(PL1.num_blocked.val == 0 && PL0.num_blocked.val == 0 && PL2.num_blocked.val == 0, "resume_yield_to: only the resumed target's pool is decremented");
#endif
    VR_ASSERT(!bad_run, "a ULT is resumable elsewhere only in state BLOCKED/READY (context already saved)");
#if KIND <= 4
    /* these callbacks publish the ULT with their very last shared access: nothing may follow it */
    VR_ASSERT(!resumed_elsewhere, "the callback performs no atomic access after the one that makes the ULT resumable (publish last)");
    if (resumable()) VR_WITNESS("callback completed and the ULT is now resumable");
#else
    VR_ASSERT(!resumed_elsewhere || (ULT0.thread.state.val == ABT_THREAD_STATE_RUNNING && ULT0.thread.p_pool == &PL2), "after the push the callback no longer writes to the ULT (it may already run elsewhere)");
    if (resumed_elsewhere) VR_WITNESS("the ULT was resumed on another stream before the callback finished");
#endif
    return 0;
}
