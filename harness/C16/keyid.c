/* C16-O3: key identities.  The per-unit tables identify an entry by the key's numeric id only, and a key may be freed while work
 * units still hold values for it (documented: the deleted key's destructor still runs at unit free).  Hence an id, once handed
 * out, must never be handed out again -- not even after ABT_key_free.  Sequence of 4 solver-chosen create/free operations on
 * up to 3 key handles from an arbitrary counter value: every created key's id differs from every id created before. */
#include <stdlib.h>
#include "abti.h"
#include "vr.h"
#include "stub_io.h"
#include "key.c"
ABTI_global *gp_ABTI_global; ABTD_XSTREAM_LOCAL ABTI_local *lp_ABTI_local;
static ABTI_global G;
static void dtor(void *v) {}
int main(void)
{
    gp_ABTI_global = &G;
    uint32_t start = nondet_u32(); __CPROVER_assume(start >= ABTI_KEY_ID_END_ && start < 0xfffffff0u);      /* counter wrap-around after 2^32 creations: outside the claim */
    g_key_id.val = start;
    ABT_key k[3] = { ABT_KEY_NULL, ABT_KEY_NULL, ABT_KEY_NULL };
    uint32_t seen[4]; int ns = 0, frees = 0;
    for (int step = 0; step < 4; step++) {
        int i = nondet_int(); __CPROVER_assume(i >= 0 && i < 3);
        if (k[i] == ABT_KEY_NULL) {
            int r = ABT_key_create(nondet_bool() ? dtor : NULL, &k[i]);
            VR_ASSERT(r == ABT_SUCCESS && k[i] != ABT_KEY_NULL, "key creation succeeds");
            uint32_t id = ((ABTI_key *)k[i])->id;
            for (int j = 0; j < 4; j++) if (j < ns) VR_ASSERT(seen[j] != id, "a key id is never handed out twice (a freed key's entries may still live in work units)");
            VR_ASSERT(id >= ABTI_KEY_ID_END_, "user key ids do not collide with the runtime's reserved keys");
            seen[ns++] = id;
        } else {
            int r = ABT_key_free(&k[i]);
            VR_ASSERT(r == ABT_SUCCESS && k[i] == ABT_KEY_NULL, "key free succeeds and clears the handle");
            frees++;
        }
    }
    if (ns >= 2 && frees >= 1) VR_WITNESS("a key was created after another one had been freed");
    return 0;
}
