/* C16: work-unit-local storage as a per-unit key->value map with exactly-once destructors.
 * One inductive step from a key table holding NPRE (0..3, one obligation each) entries with symbolic key ids
 * (all in the single slot: maximal collisions), symbolic values and symbolic destructor presence, laid out exactly as the
 * real code lays them out (validated by the BUILD variant, which produces the same state with the real set calls):
 * one real ABTI_ktable_set / ABTI_ktable_get with a symbolic key (existing or new), then the real ABTI_ktable_free.
 * With -DPPS the step runs under preemption-point scheduling: another work unit performs one complete real set on the
 * same table at a solver-chosen atomic instruction (lazy creation race, append race).
 * Memory: typed arena blocks of 128 bytes (ABTI_MEM_POOL_DESC_SIZE rounded to the cache line); caller = external thread. */
#ifdef PPS
#include "vr_hooks.h"
#endif
#include "abti.h"
#include "vr.h"
#include "stub_io.h"
struct tblk { ABTI_ktable_mem_header h; ABTI_ktable kt; char pad0[8]; ABTI_ktelem e0; char pad1[28]; uint32_t extflag; };
struct eblk { ABTI_ktable_mem_header h; ABTI_ktelem e[3]; char pad1[12]; uint32_t extflag; };
static struct tblk TB0; static struct eblk EB0, EB1;
static int tb_used, eb_used[2], freed[3];
int posix_memalign(void **p, size_t al, size_t sz)
{
    __CPROVER_assert(sz == 128 && sizeof(struct tblk) == 128 && sizeof(struct eblk) == 128, "every request is one descriptor block");
    if (!tb_used) { tb_used = 1; *p = &TB0; }
    else if (!eb_used[0]) { eb_used[0] = 1; *p = &EB0; }
    else if (!eb_used[1]) { eb_used[1] = 1; *p = &EB1; }
    else { __CPROVER_assert(0, "arena exhausted"); __CPROVER_assume(0); }
    return 0;
}
void free(void *p)
{
    int i = p == (void *)&TB0 ? 0 : p == (void *)&EB0 ? 1 : p == (void *)&EB1 ? 2 : -1;
    __CPROVER_assert(i >= 0, "free() of a pointer that was not allocated");
    if (i >= 0) { __CPROVER_assert(!freed[i], "memory block released exactly once"); freed[i] = 1; }
}
void *memset(void *d, int c, size_t n) { __CPROVER_assert(c == 0, "memset(0) on a fresh block"); return d; }
#include "key.c"
ABTI_global *gp_ABTI_global;
ABTD_XSTREAM_LOCAL ABTI_local *lp_ABTI_local;
static ABTI_global G;
#ifndef NPRE
#define NPRE 3
#endif
static int dcalls[4];
static void d0(void *v) { dcalls[0]++; } static void d1(void *v) { dcalls[1]++; } static void d2(void *v) { dcalls[2]++; } static void d3(void *v) { dcalls[3]++; }
static char VALS[4];
static ABTI_key K0, K1, K2, K3;               /* K3 is the "new" key */
static ABTI_key *const K[4] = { &K0, &K1, &K2, &K3 };
static ABTD_atomic_ptr KT;
static void *ghost[4];
static void *ndval(void) { int vi = nondet_int(); VR_ASSUME(vi >= 0 && vi <= 4); return vi == 4 ? NULL : (void *)&VALS[vi]; }
static ABTI_ktelem *slot(int i) { return i == 0 ? &TB0.e0 : i == 1 ? &EB0.e[0] : i == 2 ? &EB0.e[1] : &EB0.e[2]; }

#ifdef PPS
/* the other work unit: ONE completed ABTI_ktable_set(new key K3, env_val) on the same table, placed by the solver at any
 * atomic instruction of the focus at which the table lock is free.  It is a harness model of that set's net effect
 * (append a new element for K3 at the tail, or overwrite K3's value if present): running the real set here makes the
 * encoding intractable (allocation order becomes symbolic); the focus operation is the real code. */
static int env_done, env_off; static void *env_val; static int env_key;
static ABTI_ktelem ENVE;   /* the element the other unit appends (its memory belongs to a block that is already accounted for) */
void vr_sp(void)
{
    ABTI_ktable *t = (ABTI_ktable *)KT.val;
    if (env_off || env_done) return;
    if (!ABTI_ktable_is_valid(t) || t->lock.val.val) return;
    if (nondet_bool()) {
        env_done = 1;
        ABTD_atomic_ptr *pp = &t->p_elems[0]; ABTI_ktelem *e = (ABTI_ktelem *)pp->val;
        for (int i = 0; i < 5; i++) if (e && e->key_id != K3.id) { pp = &e->p_next; e = (ABTI_ktelem *)pp->val; }
        if (e) e->value = env_val;
        else { ENVE.f_destructor = K3.f_destructor; ENVE.key_id = K3.id; ENVE.value = env_val; ENVE.p_next.val = NULL; pp->val = &ENVE; }
    }
}
#endif

int main(void)
{
    gp_ABTI_global = &G; G.key_table_size = 1;
    K0.f_destructor = nondet_bool() ? d0 : NULL; K1.f_destructor = nondet_bool() ? d1 : NULL; K2.f_destructor = nondet_bool() ? d2 : NULL; K3.f_destructor = nondet_bool() ? d3 : NULL;
    K0.id = nondet_u32(); K1.id = nondet_u32(); K2.id = nondet_u32(); K3.id = nondet_u32();
    VR_ASSUME(K0.id != K1.id && K0.id != K2.id && K1.id != K2.id && K3.id != K0.id && K3.id != K1.id && K3.id != K2.id);
    for (int i = 0; i < 4; i++) ghost[i] = NULL;
#ifdef BUILD
    /* constructor validation: the real code, starting from nothing, produces exactly the layout assumed below */
    for (int i = 0; i < 3; i++) { ghost[i] = ndval(); int r = ABTI_ktable_set(&G, NULL, &KT, K[i], ghost[i]); VR_ASSERT(r == ABT_SUCCESS, "set succeeds"); }
    ABTI_ktable *t = (ABTI_ktable *)KT.val;
    VR_ASSERT(t == &TB0.kt && t->size == 1 && t->lock.val.val == 0 && t->p_used_mem == (void *)&EB0 && EB0.h.p_next == &TB0.h && TB0.h.p_next == NULL, "layout: table block, one element block chained in p_used_mem");
    VR_ASSERT(t->p_elems[0].val == (void *)&TB0.e0 && TB0.e0.p_next.val == (void *)&EB0.e[0] && EB0.e[0].p_next.val == (void *)&EB0.e[1] && EB0.e[1].p_next.val == NULL, "layout: chain in insertion order through the arena slots");
    VR_ASSERT(t->p_extra_mem == (void *)&EB0.e[2] && t->extra_mem_size == 44 && TB0.h.is_from_mempool == ABT_TRUE && EB0.h.is_from_mempool == ABT_TRUE && TB0.extflag == 1 && EB0.extflag == 1, "layout: bump pointer and provenance flags");
    for (int i = 0; i < 3; i++) VR_ASSERT(slot(i)->key_id == K[i]->id && slot(i)->value == ghost[i] && slot(i)->f_destructor == K[i]->f_destructor, "layout: element fields");
    VR_WITNESS("three keys inserted by the real code");
    return 0;
#else
    /* pre-state: NPRE entries, as laid out by the real code */
#if NPRE > 0 || !defined(LAZY)
    tb_used = 1; TB0.h.p_next = NULL; TB0.h.is_from_mempool = ABT_TRUE; TB0.extflag = 1;
    TB0.kt.size = 1; TB0.kt.lock.val.val = 0; TB0.kt.p_elems[0].val = NPRE > 0 ? (void *)&TB0.e0 : NULL;
    TB0.kt.p_used_mem = NPRE >= 2 ? (void *)&EB0 : (void *)&TB0;
    if (NPRE >= 2) { eb_used[0] = 1; EB0.h.p_next = &TB0.h; EB0.h.is_from_mempool = ABT_TRUE; EB0.extflag = 1; }
    TB0.kt.p_extra_mem = NPRE == 0 ? (void *)&TB0.e0 : NPRE == 1 ? (void *)&TB0.pad1 : NPRE == 2 ? (void *)&EB0.e[1] : (void *)&EB0.e[2];
    TB0.kt.extra_mem_size = NPRE == 0 ? 60 : NPRE == 1 ? 28 : NPRE == 2 ? 76 : 44;
    for (int i = 0; i < 3; i++) if (i < NPRE) { ABTI_ktelem *e = slot(i); ghost[i] = ndval(); e->key_id = K[i]->id; e->value = ghost[i]; e->f_destructor = K[i]->f_destructor; e->p_next.val = (i + 1 < NPRE) ? (void *)slot(i + 1) : NULL; }
    KT.val = &TB0.kt;
#else
    KT.val = NULL;   /* LAZY: the unit has no table yet */
#endif
#ifdef FOCUSKEY
    int k = FOCUSKEY;   /* PPS obligations fix which key each side sets (keeps the encoding small) */
#else
    int k = nondet_int(); VR_ASSUME(k >= 0 && k <= 3 && (k == 3 || k < NPRE));   /* an existing key or the new key */
#endif
    ABTI_key *pk = k == 0 ? &K0 : k == 1 ? &K1 : k == 2 ? &K2 : &K3;
#ifdef PPS
    env_key = 3; env_val = ndval();   /* the other work unit sets the NEW key */
    void *v = ndval();
    int r = ABTI_ktable_set(&G, NULL, &KT, pk, v);
    VR_ASSERT(r == ABT_SUCCESS, "set succeeds");
    env_off = 1;   /* the focus operation is over: the checks below are not scheduling points */
    if (env_done && env_key == k) { VR_ASSERT(ABTI_ktable_get(&KT, pk) == v || ABTI_ktable_get(&KT, pk) == env_val, "racing sets of one key: one of the two values is stored"); ghost[k] = ABTI_ktable_get(&KT, pk);
#if FOCUSKEY == 3
        VR_WITNESS("two work units raced to create the same new key");
#endif
    }
    else { ghost[k] = v; if (env_done) ghost[env_key] = env_val; }
#if defined(FOCUSKEY) && FOCUSKEY != 3
    if (env_done) VR_WITNESS("the owner overwrote an existing key while another unit appended a new key");
#endif
#else
    int op = nondet_int(); VR_ASSUME(op >= 0 && op < 2);
    if (op == 0) { void *v = ndval(); int r = ABTI_ktable_set(&G, NULL, &KT, pk, v); VR_ASSERT(r == ABT_SUCCESS, "set succeeds"); ghost[k] = v; if (k == 3) VR_WITNESS("new key appended");
#if NPRE > 0
        else VR_WITNESS("existing key overwritten");
#endif
    }
    else { void *v = ABTI_ktable_get(&KT, pk); VR_ASSERT(v == ghost[k], "get returns the last value set for this key (NULL if none)"); }
#endif
    /* the whole map, then exactly-once destructors and memory release */
    for (int i = 0; i < 4; i++) VR_ASSERT(ABTI_ktable_get(&KT, K[i]) == ghost[i], "map agrees for every key: values never leak between keys");
    ABTI_ktable *t = (ABTI_ktable *)KT.val;
    VR_ASSERT(ABTI_ktable_is_valid(t) || (NPRE == 0 && t == NULL), "table pointer valid (or still absent)");
    /* exactly one element per key that was ever set */
    if (t) { int len = 0; ABTI_ktelem *e = (ABTI_ktelem *)t->p_elems[0].val; for (int i = 0; i < 5; i++) if (e) { len++; e = (ABTI_ktelem *)e->p_next.val; }
             int want = NPRE + ((ghost[3] != NULL || k == 3) && (
#ifdef PPS
             1
#else
             op == 0
#endif
             ) ? 1 : 0);
#ifdef PPS
             if (env_done && env_key == 3 && k != 3) want = NPRE + 1;
#endif
             VR_ASSERT(len == want, "one entry per key: no duplicate entry for a key"); }
    int exp[4];
    for (int i = 0; i < 4; i++) exp[i] = (ghost[i] && K[i]->f_destructor) ? 1 : 0;
    if (t) ABTI_ktable_free(&G, NULL, t);
    for (int i = 0; i < 4; i++) VR_ASSERT(dcalls[i] == exp[i], "destructor called exactly once per non-NULL value still stored, never for NULL");
    VR_ASSERT((tb_used != 0) == (freed[0] != 0) && (eb_used[0] != 0) == (freed[1] != 0) && (eb_used[1] != 0) == (freed[2] != 0), "every memory block released exactly once");
#if NPRE == 3
    if (exp[0] && exp[1]) VR_WITNESS("destructors due for chained keys");
#endif
    return 0;
#endif
}
