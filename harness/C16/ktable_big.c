/* C16: key tables LARGER than a pooled descriptor (ABT_KEY_TABLE_SIZE >= 16 in /repo's configuration: the table is
 * malloc'ed, it has no spare room behind the slot array, and every element comes from a separately chained block).
 * The real ABTI_ktable_set (lazy creation through the real ABTI_ktable_create) stores two keys with symbolic ids -- the
 * second one in the LAST slot or colliding with the first or in slot 0 --, the real get reads the map back, the real
 * ABTI_ktable_free runs the destructors and releases the blocks.  cbmc's pointer checks decide that nothing is written or
 * read outside a block that was handed out (the table block is exactly as large as the real request, rounded to the cache
 * line as ABTU_malloc does).  Seeded change C16-R (spare-room bump pointer of the malloc'ed table set past its end) is
 * reported here.  Memory: typed arena; caller = external thread. */
#include "abti.h"
#include "vr.h"
#include "stub_io.h"
#define KTSIZE 16
struct bigblk { ABTI_ktable_mem_header h; ABTI_ktable kt; ABTD_atomic_ptr more[KTSIZE - 1]; char pad[16]; };
struct eblk { ABTI_ktable_mem_header h; ABTI_ktelem e[3]; char pad1[12]; uint32_t extflag; };
static struct bigblk BIG; static struct eblk EB0, EB1;
static int big_used, eb_used[2], freed[3];
int posix_memalign(void **p, size_t al, size_t sz)
{
    __CPROVER_assert(sizeof(struct bigblk) == 192 && sizeof(struct eblk) == 128, "arena block sizes");
    __CPROVER_assert(sz == 128 || sz == 192, "requests: one malloc'ed table of 16 slots (176 bytes rounded to 192) or one descriptor block (128)");
    if (sz == 192) { __CPROVER_assert(!big_used, "one table per unit"); big_used = 1; *p = &BIG; }
    else if (!eb_used[0]) { eb_used[0] = 1; *p = &EB0; }
    else if (!eb_used[1]) { eb_used[1] = 1; *p = &EB1; }
    else { __CPROVER_assert(0, "arena exhausted"); __CPROVER_assume(0); }
    return 0;
}
void free(void *p)
{
    int i = p == (void *)&BIG ? 0 : p == (void *)&EB0 ? 1 : p == (void *)&EB1 ? 2 : -1;
    __CPROVER_assert(i >= 0, "free() of a pointer that was not allocated");
    if (i >= 0) { __CPROVER_assert(!freed[i], "memory block released exactly once"); freed[i] = 1; }
}
void *memset(void *d, int c, size_t n)
{
    /* the slot array of the fresh table is cleared by the real code: model it exactly for the table block */
    __CPROVER_assert(c == 0, "memset(0) on a fresh block");
    if (d == (void *)BIG.kt.p_elems) { __CPROVER_assert(n == sizeof(ABTD_atomic_ptr) * KTSIZE, "the whole slot array is cleared"); BIG.kt.p_elems[0].val = NULL; for (int i = 0; i < KTSIZE - 1; i++) BIG.more[i].val = NULL; }
    return d;
}
#include "key.c"
ABTI_global *gp_ABTI_global;
ABTD_XSTREAM_LOCAL ABTI_local *lp_ABTI_local;
static ABTI_global G;
static int dcalls[2];
static void d0(void *v) { dcalls[0]++; } static void d1(void *v) { dcalls[1]++; }
static char VALS[4];
static ABTI_key K0, K1;
static ABTD_atomic_ptr KT;
static void *ndval(void) { int vi = nondet_int(); VR_ASSUME(vi >= 0 && vi <= 4); return vi == 4 ? NULL : (void *)&VALS[vi]; }

int main(void)
{
    gp_ABTI_global = &G; G.key_table_size = KTSIZE;
    for (int i = 0; i < KTSIZE - 1; i++) BIG.more[i].val = &VALS[0];   /* garbage until the real code clears the slots */
    BIG.kt.p_elems[0].val = &VALS[0];
    K0.f_destructor = nondet_bool() ? d0 : NULL; K1.f_destructor = nondet_bool() ? d1 : NULL;
    K0.id = nondet_u32(); K1.id = nondet_u32();
    VR_ASSUME(K0.id != K1.id);
    int s0 = K0.id & (KTSIZE - 1), s1 = K1.id & (KTSIZE - 1);
    VR_ASSUME(s0 == KTSIZE - 1);                            /* slots: first key in the last slot, second in the last or first (stated bound) */
    VR_ASSUME(s1 == KTSIZE - 1 || s1 == 0);
    KT.val = NULL;
    void *v0 = ndval(), *v1 = ndval();
    VR_ASSERT(ABTI_ktable_get(&KT, &K0) == NULL, "unit without a table: get returns NULL");
    int r = ABTI_ktable_set(&G, NULL, &KT, &K0, v0); VR_ASSERT(r == ABT_SUCCESS, "first set succeeds (table created lazily)");
    ABTI_ktable *t = (ABTI_ktable *)KT.val;
    VR_ASSERT(t == &BIG.kt && big_used && t->size == KTSIZE && BIG.h.is_from_mempool == ABT_FALSE && BIG.h.p_next == NULL, "the table lives in the malloc'ed block");
    VR_ASSERT(eb_used[0] && t->p_used_mem == (void *)&EB0 && EB0.h.p_next == &BIG.h, "the first element lives in a block of its own, chained for release");
    { size_t off = __CPROVER_POINTER_OFFSET(t->p_extra_mem), sz = t->extra_mem_size;
      VR_ASSERT(sz == 0 || (__CPROVER_same_object(t->p_extra_mem, &EB0) && off <= 128 && sz <= 128 - off) || (__CPROVER_same_object(t->p_extra_mem, &BIG) && off <= 192 && sz <= 192 - off),
                "the spare room the next element is carved from lies inside a block that was handed out"); }
    VR_ASSERT(ABTI_ktable_get(&KT, &K1) == NULL, "a key that was never set reads NULL, colliding or not");
    r = ABTI_ktable_set(&G, NULL, &KT, &K1, v1); VR_ASSERT(r == ABT_SUCCESS, "second set succeeds");
    VR_ASSERT(ABTI_ktable_get(&KT, &K0) == v0 && ABTI_ktable_get(&KT, &K1) == v1, "map agrees for both keys: values never leak between keys or slots");
    void *v2 = v0;
    VR_ASSERT(!eb_used[1], "two elements share one element block");
    if (s0 == s1) VR_WITNESS("both keys in one slot of the large table");
    if (s0 != s1 && s1 == 0) VR_WITNESS("keys in the last and the first slot of the large table");
    int e0 = (v2 && K0.f_destructor) ? 1 : 0, e1 = (v1 && K1.f_destructor) ? 1 : 0;
    ABTI_ktable_free(&G, NULL, t);
    VR_ASSERT(dcalls[0] == e0 && dcalls[1] == e1, "destructor called exactly once per non-NULL value still stored, never for NULL");
    VR_ASSERT(freed[0] && freed[1] && !freed[2], "every memory block released exactly once");
    if (e0 && e1) VR_WITNESS("destructors due for both keys");
    return 0;
}
