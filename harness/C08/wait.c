/* C08-O1: ABT_barrier_wait as focus under preemption-point scheduling.
 * Barrier for n waiters (n symbolic in 1..3); the focus arrives when c (symbolic, < n) callers of the current round are
 * already parked (blocked ULT1 and/or an external thread's dummy).  Environment: the remaining arrivals -- the LAST
 * arrival of the round is a complete real ABT_barrier_wait call by another agent; an arrival that has to park is a harness
 * model of the same enqueue step (its frame cannot live on the single C stack) -- and, once the round is complete, a fast
 * caller re-entering the next round. */
#include "vr_hooks.h"
#include "abti.h"
#include "world.h"
#include "stub_io.h"
static ABTI_barrier B;
static ABTI_thread D1;
static int n, arrived, round_done, f_released, early, parked_ult1, parked_d1, next_round_entered, reinit_done;
#if FOCUS_EXT
#define AGENT_A (-1)
#define AGENT_L 2
#else
#define AGENT_A 0
#define AGENT_L (-1)
#endif
static void park(ABTI_thread *t) { t->p_next = NULL; if (B.waitlist.p_head == NULL) B.waitlist.p_head = t; else B.waitlist.p_tail->p_next = t; B.waitlist.p_tail = t; }
static void env_step(void)
{
    int who = nondet_int();
    if (B.lock.val.val) return;                         /* the barrier lock is held by the preempted focus: others spin */
    if (who == 1 && !round_done && arrived < n - 1 && B.counter == (size_t)arrived && !parked_d1) {
        /* a non-last arrival parks (model): counter++, enqueue, sleep */
        arrived++; B.counter++; D1.type = ABTI_THREAD_TYPE_EXT; D1.state.val = ABT_THREAD_STATE_BLOCKED; park(&D1); parked_d1 = 1;
    } else if (who == 2 && !round_done && arrived == n - 1 && B.counter == (size_t)(n - 1)) {
        /* the last arrival of the round: complete real call */
        as_agent(AGENT_L); arrived++;
        vr_env_noblock = 1;             /* it is the last arrival: it does not park */
        int r = ABT_barrier_wait((ABT_barrier)&B);
        vr_env_noblock = 0; __CPROVER_assert(r == ABT_SUCCESS, "last arrival returns");
        round_done = 1;
        __CPROVER_assert(B.counter == 0 && B.waitlist.p_head == NULL && B.waitlist.p_tail == NULL, "round completion resets the counter and empties the wait-list before the lock is released");
    } else if (who == 4 && round_done && !next_round_entered && !reinit_done) {
        /* the round is complete (its last arrival has returned, nobody is blocked on the barrier any more): the barrier may be
         * re-initialised for a different number of waiters -- also while a released waiter has not yet left ABT_barrier_wait
         * (an external thread between its wake-up and its re-check of the futex word): it must still get out */
        as_agent(AGENT_L); reinit_done = 1;
        int r = ABT_barrier_reinit((ABT_barrier)&B, (uint32_t)n + 1);
        __CPROVER_assert(r == ABT_SUCCESS && B.num_waiters == (size_t)n + 1, "reinit after a completed round succeeds");
    } else if (who == 3 && round_done && !next_round_entered && !reinit_done && n > 1) {
        /* a fast caller re-enters for the next round while slow ones are still leaving: it must be counted into the NEW round */
        next_round_entered = 1; B.counter++; static ABTI_thread D2; D2.type = ABTI_THREAD_TYPE_EXT; D2.state.val = ABT_THREAD_STATE_BLOCKED; park(&D2);
    }
}
static void vr_after_switch(int k) { world_wait_and_resume(k); if (arrived < n) early = 1; }
static void vr_stuck(const char *where) { __CPROVER_assert(!(arrived >= n), "barrier: all n callers have entered the round but a waiter still sleeps (lost wake-up)"); }

int main(void)
{
    world_init();
    n = nondet_int(); VR_ASSUME(n >= 1 && n <= 3);
    int c = nondet_int(); VR_ASSUME(c >= 0 && c < n && c <= 1);
    B.num_waiters = n; B.counter = c; B.lock.val.val = 0; ABTI_waitlist_init(&B.waitlist);
    if (c == 1) {   /* one caller of this round is already parked: blocked ULT1 */
        ULT1.thread.state.val = ABT_THREAD_STATE_BLOCKED; PL1.num_blocked.val = 1; ES1.p_thread = &SCHED1.thread; park(&ULT1.thread); parked_ult1 = 1;
    }
    arrived = c;
    vr_in_init = 0;
    as_agent(AGENT_A);
    arrived++;                        /* the focus enters the round */
    int last = (arrived == n);
    int r = ABT_barrier_wait((ABT_barrier)&B);
    VR_ASSERT(r == ABT_SUCCESS, "barrier wait succeeds");
    VR_ASSERT(arrived >= n, "nobody returns from the barrier before num_waiters callers have entered the round");
    VR_ASSERT(!early, "a parked waiter is not resumed before the round is complete");
    if (last) { VR_ASSERT(B.counter == (size_t)(next_round_entered ? 1 : 0) , "the last arrival resets the counter"); if (c == 1) VR_ASSERT(sp_in[1] && ULT1.thread.state.val == ABT_THREAD_STATE_READY, "the last arrival resumes every parked waiter exactly once"); }
    if (next_round_entered) VR_ASSERT(B.counter == 1 && B.waitlist.p_head != NULL, "a fast caller re-entering is counted into the new round and stays parked");
    VR_ASSERT(B.lock.val.val == 0, "barrier lock released");
    if (last && n == 2) VR_WITNESS("focus was the last arrival and released a parked ULT");
    if (!last && n == 3) VR_WITNESS("focus parked until the third caller arrived");
    if (n == 1) VR_WITNESS("single-waiter barrier returns at once");
    if (reinit_done && !last) VR_WITNESS("the barrier was re-initialised after the round completed, before the released focus had left the wait");
#if !FOCUS_EXT
    VR_ASSERT(PL0.num_blocked.val == 0, "blocked counter balanced");
#endif
    return 0;
}
