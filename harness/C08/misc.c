/* C08-O2/O3: ABT_barrier_create / reinit / get_num_waiters and the execution-stream barrier wrapper (pthread barrier in
 * this configuration: the pthread primitive itself is trusted, the wrapper must hand it the right count and call it
 * whenever more than one stream participates). */
#include "abti.h"
#include "vr.h"
#include "stub_io.h"
#include "stub_pthread.h"
static unsigned pb_count; static int pb_waits, pb_inits, pb_destroys;
int pthread_barrier_init(pthread_barrier_t *b, const pthread_barrierattr_t *a, unsigned c) { pb_count = c; pb_inits++; return 0; }
int pthread_barrier_wait(pthread_barrier_t *b) { pb_waits++; return 0; }
int pthread_barrier_destroy(pthread_barrier_t *b) { pb_destroys++; return 0; }
#include "barrier.c"
#include "stream_barrier.c"
#include "arch/abtd_stream.c"
ABTI_global *gp_ABTI_global;
ABTD_XSTREAM_LOCAL ABTI_local *lp_ABTI_local;
static ABTI_global G;
int main(void)
{
    gp_ABTI_global = &G;
    uint32_t n = nondet_u32(), m = nondet_u32();
    ABT_barrier b = ABT_BARRIER_NULL;
    int r = ABT_barrier_create(n, &b);
    if (n == 0) { VR_ASSERT(r != ABT_SUCCESS, "create with 0 waiters is rejected"); VR_WITNESS("zero rejected"); return 0; }
    VR_ASSERT(r == ABT_SUCCESS && b != ABT_BARRIER_NULL, "create succeeds");
    uint32_t got = 0; ABT_barrier_get_num_waiters(b, &got);
    VR_ASSERT(got == n, "barrier created for n waiters");
    r = ABT_barrier_reinit(b, m);
    ABT_barrier_get_num_waiters(b, &got);
    if (m == 0) VR_ASSERT(r != ABT_SUCCESS && got == n, "reinit with 0 waiters is rejected and changes nothing");
    else { VR_ASSERT(r == ABT_SUCCESS && got == m, "after ABT_barrier_reinit the barrier waits for exactly the new number of callers (larger or smaller)"); if (m > n) VR_WITNESS("reinit to a larger count"); if (m < n) VR_WITNESS("reinit to a smaller count"); }
    ABTI_barrier *pb = (ABTI_barrier *)b;
    VR_ASSERT(pb->counter == 0 && pb->lock.val.val == 0 && pb->waitlist.p_head == NULL, "a fresh/reinitialised barrier has no arrivals");
    r = ABT_barrier_free(&b);
    VR_ASSERT(r == ABT_SUCCESS && b == ABT_BARRIER_NULL, "free resets the handle");
    /* execution-stream barrier */
    uint32_t k = nondet_u32(); ABT_xstream_barrier xb;
    r = ABT_xstream_barrier_create(k, &xb);
    if (k == 0) { VR_ASSERT(r != ABT_SUCCESS && xb == ABT_XSTREAM_BARRIER_NULL, "xstream barrier with 0 waiters rejected"); return 0; }
    VR_ASSERT(r == ABT_SUCCESS && pb_inits == 1 && pb_count == k, "the native barrier is initialised with the requested count");
    r = ABT_xstream_barrier_wait(xb);
    VR_ASSERT(r == ABT_SUCCESS && pb_waits == (k > 1 ? 1 : 0), "xstream barrier wait blocks on the native barrier whenever more than one stream participates");
    if (k == 2) VR_WITNESS("two-stream barrier");
    r = ABT_xstream_barrier_free(&xb);
    VR_ASSERT(r == ABT_SUCCESS && xb == ABT_XSTREAM_BARRIER_NULL && pb_destroys == 1, "xstream barrier freed");
    return 0;
}
