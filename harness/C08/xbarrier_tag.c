/* C08: the execution-stream barrier WITHOUT pthread barriers (sense-reversal / tag implementation of stream_barrier.c, the
 * code compiled where pthread_barrier_init is missing -- e.g. macOS).  /repo is configured with HAVE_PTHREAD_BARRIER_INIT, so
 * this obligation checks a configuration other than the built one: the macro is undefined here before any header sees it.
 * Focus: one real ABT_xstream_barrier_wait by a stream that arrives when c of the n callers (n in 2..3) have arrived.
 * Environment, at every atomic access of the focus and at every poll of its spin loop: the remaining arrivals, each a COMPLETE
 * real ABT_xstream_barrier_wait unless it would have to spin (then the model of its locked part: counter++, tag sampled).
 * Required: the focus returns only after all n have entered; and once all n have entered a spinning focus gets out: at a poll
 * with the round complete and every remaining step of the others done, the tag it compares against differs from the tag it
 * sampled (otherwise it spins until the NEXT round completes, which needs the focus itself: lost wake-up). */
#include "abt_config.h"
#undef HAVE_PTHREAD_BARRIER_INIT
#include "vr_hooks.h"
#include "abti.h"
void vr_pause(void);
#define ABTD_atomic_pause() vr_pause()
#include "vr.h"
#include "stub_io.h"
#include "stream_barrier.c"
ABTI_global *gp_ABTI_global; ABTD_XSTREAM_LOCAL ABTI_local *lp_ABTI_local;
static ABTI_global G;
static ABTI_xstream_barrier B;
static int n, arrived, in_env, vr_in_init = 1, polls, focus_polling, complete_before;
static void env_step(void)
{
    if (B.lock.val.val) return;                          /* lock held by the preempted focus: the others spin */
    if (arrived >= n || !nondet_bool()) return;
    in_env = 1;
    if (B.counter + 1 == B.num_waiters) {                /* this arrival completes the round: complete real call */
        arrived++;
        int r = ABT_xstream_barrier_wait((ABT_xstream_barrier)&B);
        __CPROVER_assert(r == ABT_SUCCESS, "last arrival returns");
    } else {                                             /* a non-last arrival: its locked part, then it spins elsewhere */
        arrived++; B.counter++;
    }
    in_env = 0;
}
void vr_sp(void) { if (vr_in_init || in_env) return; env_step(); }
void vr_pause(void)
{
    if (in_env) { __CPROVER_assert(0, "an environment arrival that completes the round never spins"); return; }
    /* stuck predicate: at the previous poll every stream had already entered (round complete, tag advanced, nobody else will
     * touch the barrier in this round); the focus has re-read the tag since and is polling AGAIN: it compares against a tag it
     * sampled after the advance and would spin until the next round completes -- which needs the focus itself */
    __CPROVER_assert(!complete_before, "xstream barrier (tag implementation): all streams have entered and the tag was advanced, but a waiter keeps spinning (lost wake-up)");
    polls++; focus_polling = 1;
    env_step(); env_step();
    complete_before = (arrived >= n);
    if (polls >= 3) __CPROVER_assume(0);                 /* spin loop cut: three polls with up to two arrivals each cover n <= 3 */
}
int main(void)
{
    gp_ABTI_global = &G;
    n = nondet_int(); VR_ASSUME(n >= 2 && n <= 3);
    int c = nondet_int(); VR_ASSUME(c >= 0 && c < n);
    uint64_t tag0 = nondet_u64(); VR_ASSUME(tag0 <= (UINT64_MAX >> 1));
    B.num_waiters = n; B.counter = c; B.lock.val.val = 0; B.tag.val = tag0;
    arrived = c;
    vr_in_init = 0;
    arrived++;                                           /* the focus enters */
    int last = (arrived == n);
    int r = ABT_xstream_barrier_wait((ABT_xstream_barrier)&B);
    VR_ASSERT(r == ABT_SUCCESS, "xstream barrier wait succeeds");
    VR_ASSERT(arrived >= n, "nobody returns from the barrier before num_waiters streams have entered");
    VR_ASSERT(B.lock.val.val == 0, "barrier lock released");
    VR_ASSERT(B.counter == 0 && B.tag.val == ((tag0 + 1) & (UINT64_MAX >> 1)), "the round is complete: counter reset, tag advanced exactly once");
    if (!last && focus_polling) VR_WITNESS("the focus spun until the last stream arrived");
    if (last) VR_WITNESS("the focus was the last arrival");
    return 0;
}
