/* C08-O4: a caller that is not allowed to wait (a tasklet, in the 1.x API of this build) is REJECTED by ABT_barrier_wait and
 * must not count as an arrival: barrier of n waiters with c already arrived (symbolic), the tasklet's call returns
 * ABT_ERR_BARRIER and leaves counter, wait-list and lock exactly as they were -- otherwise the round would complete with one
 * real caller missing.  (A yieldable caller in the same state is accepted: twin check that the rejection is about the caller.) */
#include "abti.h"
#include "vr.h"
#include "stub_io.h"
#include "barrier.c"
ABTI_global *gp_ABTI_global; ABTD_XSTREAM_LOCAL ABTI_local *lp_ABTI_local;
static ABTI_global G; static ABTI_xstream ES; static ABTI_thread TASK; static ABTI_barrier B; static ABTI_thread W;
int main(void)
{
    gp_ABTI_global = &G; lp_ABTI_local = (ABTI_local *)&ES; ES.p_thread = &TASK;
    TASK.type = ABTI_THREAD_TYPE_THREAD;                 /* not yieldable: a tasklet */
    size_t n = nondet_size_t(), c = nondet_size_t(); __CPROVER_assume(n >= 1 && n <= 4 && c < n);
    B.num_waiters = n; B.counter = c; B.lock.val.val = 0; ABTI_waitlist_init(&B.waitlist);
    if (c > 0) { W.p_next = NULL; B.waitlist.p_head = B.waitlist.p_tail = &W; }
    int r = ABT_barrier_wait((ABT_barrier)&B);
    VR_ASSERT(r == ABT_ERR_BARRIER, "a tasklet is rejected by ABT_barrier_wait (1.x API)");
    VR_ASSERT(B.counter == c && B.num_waiters == n, "a rejected call is not counted as an arrival");
    VR_ASSERT(B.lock.val.val == 0 && B.waitlist.p_head == (c > 0 ? &W : NULL), "a rejected call leaves the lock free and the wait-list untouched");
    if (c + 1 == n) VR_WITNESS("the tasklet would have been the last arrival");
    if (c + 1 < n) VR_WITNESS("the tasklet would have had to wait");
    return 0;
}
