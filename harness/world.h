/* E2 world: a tiny Argobots universe for preemption-point symbolic scheduling (see DESIGN.md section 2.2).
 *
 *   - NES execution streams ES0..ES2, each with a scheduler ULT SCHEDk (parent of everything that runs there) and one
 *     work ULT ULTk whose pool is the harness pool PLk (slot per ULT, push-once asserted: the contract C07 proves for
 *     the real pools).  All are separate static objects (keeps cbmc field-sensitive).
 *   - agent identity = lp_ABTI_local (NULL = external thread); as_agent(k) switches it.
 *   - vr_sp() is called before every atomic builtin of the real code (stubs/vr_hooks.h).  When the focus operation is
 *     running and the nesting depth allows, the solver may run one environment step there: env_step() is defined by
 *     the harness and performs COMPLETE real API calls under another agent's identity.
 *   - the fcontext layer is replaced by a model on the single C stack: switch_with_call = mark the old context saved,
 *     run the REAL post-switch callback, then vr_after_switch() (harness: let the environment run until the ULT is
 *     published again; assert the stuck predicate if it never is), then return = the ULT resumes.
 *   - the Linux futex syscall is modelled: FUTEX_WAIT compares the word atomically, sleeps until a FUTEX_WAKE on the
 *     same word happens in an environment step; if no agent can act any more the harness' stuck predicate is asserted.
 */
#ifndef VR_WORLD_H
#define VR_WORLD_H
#include "vr.h"

#ifndef NES
#define NES 3
#endif
#ifndef VR_MAXDEPTH
#define VR_MAXDEPTH 1
#endif
#ifndef VR_SLEEP_STEPS
#define VR_SLEEP_STEPS 3   /* environment steps offered while an agent sleeps */
#endif

ABTI_global *gp_ABTI_global;
ABTD_XSTREAM_LOCAL ABTI_local *lp_ABTI_local;
static ABTI_global G;
static ABTI_xstream ES0, ES1, ES2;
static ABTI_ythread SCHED0, SCHED1, SCHED2, ULT0, ULT1, ULT2;
static ABTI_pool PL0, PL1, PL2;
static ABTI_xstream *const ESP[3] = { &ES0, &ES1, &ES2 };
static ABTI_ythread *const SCHEDP[3] = { &SCHED0, &SCHED1, &SCHED2 };
static ABTI_ythread *const ULTP[3] = { &ULT0, &ULT1, &ULT2 };
static ABTI_pool *const PLP[3] = { &PL0, &PL1, &PL2 };

static int vr_in_init = 1, vr_depth, vr_points, vr_env_steps;
static int vr_dead;            /* the current C frame belongs to a ULT that no longer runs (after a noreturn switch) */
static int sp_in[3];           /* harness pool: is ULTk queued */
static int vr_resumed[3];      /* number of times ULTk was resumed by the switch model */
static int vr_saved[3];        /* context of ULTk completely saved (may be run elsewhere) */

static int vr_env_noblock;    /* set (constant) while an environment agent runs a call that must not block: blocking paths are pruned */
static void env_step(void);                 /* harness: one complete operation of some other agent (or nothing) */
static void vr_after_switch(int k);         /* harness: ULTk has switched away; return when it runs again */
static void vr_stuck(const char *where);    /* harness: nobody can act any more while somebody sleeps: assert the stuck predicate */

#ifdef VR_RESUME_ELSEWHERE
/* a blocked ULT may be popped and continued by ANOTHER stream (its pool is shared): the spare stream ESX with its scheduler
 * SCHEDX hosts at most one moved ULT; the agent identity of that ULT follows it */
static ABTI_xstream ESX; static ABTI_ythread SCHEDX; static int vr_moved = -1;
static inline void as_agent(int k) { lp_ABTI_local = (k < 0) ? NULL : (k == vr_moved ? (ABTI_local *)&ESX : (ABTI_local *)ESP[k]); }
static inline int cur_agent(void) { if (vr_moved >= 0 && lp_ABTI_local == (ABTI_local *)&ESX) return vr_moved; for (int k = 0; k < NES; k++) if (lp_ABTI_local == (ABTI_local *)ESP[k]) return k; return -1; }
#else
static inline void as_agent(int k) { lp_ABTI_local = (k < 0) ? NULL : (ABTI_local *)ESP[k]; }
static inline int cur_agent(void) { for (int k = 0; k < NES; k++) if (lp_ABTI_local == (ABTI_local *)ESP[k]) return k; return -1; }
#endif

#ifdef VR_SP_EXTRA
void VR_SP_EXTRA(void);
#endif
void vr_sp(void)
{
#ifdef VR_SP_EXTRA
    VR_SP_EXTRA();     /* harness-specific monitor executed at every scheduling point */
#endif
    if (vr_in_init || vr_depth >= VR_MAXDEPTH) return;
    vr_points++;
    int me = cur_agent();
    vr_depth++;
    if (nondet_bool()) { env_step(); vr_env_steps++; }
    vr_depth--;
    as_agent(me);
}

/* ---------------- harness pool ------------------------------------------------------------------------------ */
static int ult_index_of_unit(ABT_unit unit) { for (int i = 0; i < NES; i++) if (unit == ULTP[i]->thread.unit) return i; return -1; }
#ifdef VR_PUSH_HOOK
void VR_PUSH_HOOK(void);
#endif
static void sp_push(ABT_pool pool, ABT_unit unit, ABT_pool_context c)
{
#ifdef VR_PUSH_HOOK
    VR_PUSH_HOOK();    /* scheduling point at the start of the push: the unit is not visible yet */
#endif
    int i = ult_index_of_unit(unit);
    __CPROVER_assert(i >= 0, "pushed unit is a known ULT");
    if (i >= 0) {
        __CPROVER_assert(!sp_in[i], "a unit is pushed while it is already in a pool (would run twice)");
        __CPROVER_assert((ABTI_pool *)pool == ULTP[i]->thread.p_pool, "unit pushed to its associated pool");
        sp_in[i] = 1; ULTP[i]->thread.is_in_pool.val = 1;
    }
#ifdef VR_SP_EXTRA
    VR_SP_EXTRA();     /* a push publishes the unit: other streams may act immediately */
#endif
}
static ABT_thread sp_pop(ABT_pool pool, ABT_pool_context c)
{
    for (int i = 0; i < NES; i++) if ((ABTI_pool *)pool == ULTP[i]->thread.p_pool && sp_in[i]) { sp_in[i] = 0; ULTP[i]->thread.is_in_pool.val = 0; return (ABT_thread)ULTP[i]; }
    return ABT_THREAD_NULL;
}
static int sp_remove(ABT_pool pool, ABT_unit unit)
{
    int i = ult_index_of_unit(unit);
    if (i < 0 || !sp_in[i] || (ABTI_pool *)pool != ULTP[i]->thread.p_pool) return ABT_ERR_POOL;
    sp_in[i] = 0; ULTP[i]->thread.is_in_pool.val = 0; return ABT_SUCCESS;
}
static ABT_bool sp_unit_is_in_pool(ABT_unit unit) { int i = ult_index_of_unit(unit); return (i >= 0 && sp_in[i]) ? ABT_TRUE : ABT_FALSE; }
#ifdef VR_POOLQ_HOOK
void VR_POOLQ_HOOK(void);
#endif
static ABT_bool sp_is_empty(ABT_pool pool) {
#ifdef VR_POOLQ_HOOK
    VR_POOLQ_HOOK();   /* scheduling point before the emptiness query */
#endif
    for (int i = 0; i < NES; i++) if ((ABTI_pool *)pool == ULTP[i]->thread.p_pool && sp_in[i]) return ABT_FALSE; return ABT_TRUE; }

/* ---------------- callbacks run by the switch model ------------------------------------------------------------ */
static void vr_run_cb(void (*f)(void *), void *a)
{
    if (f == ABTI_ythread_callback_suspend_unlock) ABTI_ythread_callback_suspend_unlock(a);
    else if (f == ABTI_ythread_callback_suspend) ABTI_ythread_callback_suspend(a);
    else if (f == ABTI_ythread_callback_suspend_join) ABTI_ythread_callback_suspend_join(a);
    else if (f == ABTI_ythread_callback_yield_loop) ABTI_ythread_callback_yield_loop(a);
    else if (f == ABTI_ythread_callback_yield_user_yield) ABTI_ythread_callback_yield_user_yield(a);
    else if (f == ABTI_ythread_callback_exit) ABTI_ythread_callback_exit(a);
    else if (f == ABTI_ythread_callback_yield_user_yield_to) ABTI_ythread_callback_yield_user_yield_to(a);
    else if (f == ABTI_ythread_callback_yield_create_to) ABTI_ythread_callback_yield_create_to(a);
    else if (f == ABTI_ythread_callback_yield_revive_to) ABTI_ythread_callback_yield_revive_to(a);
    else if (f == ABTI_ythread_callback_thread_yield_to) ABTI_ythread_callback_thread_yield_to(a);
    else if (f == ABTI_ythread_callback_resume_yield_to) ABTI_ythread_callback_resume_yield_to(a);
    else if (f == ABTI_ythread_callback_resume_suspend_to) ABTI_ythread_callback_resume_suspend_to(a);
    else if (f == ABTI_ythread_callback_resume_exit_to) ABTI_ythread_callback_resume_exit_to(a);
    else if (f == ABTI_ythread_callback_suspend_replace_sched) ABTI_ythread_callback_suspend_replace_sched(a);
    else if (f == ABTI_ythread_callback_orphan) ABTI_ythread_callback_orphan(a);
    else __CPROVER_assert(0, "switch model: unknown post-switch callback");
}
static int ult_index_of_ctx(fcontext_t *c) { for (int i = 0; i < NES; i++) if (c == &ULTP[i]->ctx.ctx) return i; return -1; }

void switch_with_call_fcontext(void *cb_arg, void (*f_cb)(void *), fcontext_t *p_new_ctx, fcontext_t *p_old_ctx)
{
    if (vr_env_noblock) { __CPROVER_assume(0); return; }
    int k = ult_index_of_ctx(p_old_ctx);
    __CPROVER_assert(k >= 0, "switch model: the switching context is a work ULT");
    __CPROVER_assume(k >= 0);          /* (reported above; do not explore the garbage that would follow) */
    p_old_ctx->dummy = (void *)1;      /* context stored ... */
    vr_saved[k] = 1;                   /* ... completely, before the callback runs (what E3 proves for the assembly) */
    vr_run_cb(f_cb, cb_arg);           /* REAL callback, on the parent's (scheduler's) side */
    vr_after_switch(k);                /* harness decides how/when ULTk runs again */
    vr_saved[k] = 0;
}
#ifndef VR_OWN_NORETURN_MODEL
void switch_fcontext(fcontext_t *n, fcontext_t *o) { __CPROVER_assert(0, "switch model: plain switch not expected in this scenario"); __CPROVER_assume(0); }
void jump_fcontext(fcontext_t *p) { __CPROVER_assert(0, "switch model: jump not expected in this scenario"); __CPROVER_assume(0); }
void jump_with_call_fcontext(void *a, void (*f)(void *), fcontext_t *n) { __CPROVER_assert(0, "switch model: jump_with_call not expected in this scenario"); __CPROVER_assume(0); }
void init_and_switch_fcontext(fcontext_t *a, void (*f)(fcontext_t *), void *s, fcontext_t *o) { __CPROVER_assert(0, "switch model: start not expected"); __CPROVER_assume(0); }
void init_and_jump_fcontext(fcontext_t *a, void (*f)(fcontext_t *), void *s) { __CPROVER_assert(0, "switch model: start not expected"); __CPROVER_assume(0); }
void init_and_switch_with_call_fcontext(void *c, void (*fc)(void *), fcontext_t *n, void (*f)(fcontext_t *), void *s, fcontext_t *o) { __CPROVER_assert(0, "switch model: start not expected"); __CPROVER_assume(0); }
void init_and_jump_with_call_fcontext(void *c, void (*fc)(void *), fcontext_t *n, void (*f)(fcontext_t *), void *s) { __CPROVER_assert(0, "switch model: start not expected"); __CPROVER_assume(0); }
#endif
void peek_fcontext(void *arg, void (*f_peek)(void *), fcontext_t *p) {}
void ABTD_ythread_func_wrapper(ABTD_ythread_context *p) { __CPROVER_assert(0, "thread entry not expected in this scenario"); __CPROVER_assume(0); }

/* ---------------- Linux futex model ----------------------------------------------------------------------------- */
static int vr_futex_wakes;       /* number of FUTEX_WAKE calls so far (one futex word per scenario) */
static int vr_futex_sleeping;    /* a non-yieldable caller is asleep in FUTEX_WAIT */
static int vr_futex_timeouts;
long vr_futex_wake(int *addr) { vr_futex_wakes++; return 0; }
long vr_futex_wait(int *addr, int val, const void *ts)
{
    if (vr_env_noblock) { __CPROVER_assume(0); return 0; }
    if (*addr != val) return -1;                      /* EAGAIN: the word already changed */
    int me = cur_agent();
    int wakes0 = vr_futex_wakes;
    __CPROVER_assert(vr_futex_sleeping == 0, "futex model: one sleeper at a time");
    vr_futex_sleeping++;
    vr_depth++;
    for (int i = 0; i < VR_SLEEP_STEPS; i++) { if (vr_futex_wakes != wakes0) break; env_step(); }
    vr_depth--;
    vr_futex_sleeping--;
    as_agent(me);
    if (vr_futex_wakes == wakes0) {
        if (ts) { vr_futex_timeouts++; return -1; }   /* timed wait: the timeout expires */
        vr_stuck("asleep in FUTEX_WAIT and no agent is left that could wake it");
        __CPROVER_assume(0);
    }
    return 0;
}

/* ---------------- request handling is outside these scenarios ---------------------------------------------------- */
#ifndef VR_REAL_REQUESTS
void ABTI_thread_handle_request_cancel(ABTI_global *g, ABTI_xstream *x, ABTI_thread *t) { __CPROVER_assert(0, "no cancel request in this scenario"); __CPROVER_assume(0); }
int ABTI_thread_handle_request_migrate(ABTI_global *g, ABTI_local *l, ABTI_thread *t) { __CPROVER_assert(0, "no migration request in this scenario"); __CPROVER_assume(0); return 0; }
void ABTI_thread_free(ABTI_global *g, ABTI_local *l, ABTI_thread *t) { __CPROVER_assert(0, "no thread free in this scenario"); __CPROVER_assume(0); }
#endif

/* ---------------- construction ------------------------------------------------------------------------------------ */
static void world_init_thread(ABTI_ythread *y, ABTI_pool *pool, ABTI_ythread *parent, ABTI_xstream *es, ABTI_thread_type extra)
{
    y->thread.type = ABTI_THREAD_TYPE_THREAD | ABTI_THREAD_TYPE_YIELDABLE | ABTI_THREAD_TYPE_NAMED | extra;
    y->thread.p_pool = pool; y->thread.p_parent = parent ? &parent->thread : 0; y->thread.p_last_xstream = es;
    y->thread.state.val = ABT_THREAD_STATE_RUNNING; y->thread.request.val = 0; y->thread.p_keytable.val = 0;
    y->thread.f_thread = 0; y->thread.p_arg = 0;
    ABTI_unit_init_builtin(&y->thread);
    y->ctx.ctx.dummy = (void *)1; y->ctx.p_link.val.val = 0; y->ctx.p_stacktop = 0; y->ctx.stacksize = 0;
}
static void world_init(void)
{
    gp_ABTI_global = &G;
    G.num_xstreams = NES; G.max_xstreams = NES;
    for (int e = 0; e < NES; e++) {
        ABTI_pool *p = PLP[e];
        p->access = ABT_POOL_ACCESS_MPMC; p->is_builtin = ABT_TRUE; p->num_blocked.val = 0; p->num_scheds.val = 1;
        p->required_def.p_push = sp_push; p->required_def.p_pop = sp_pop; p->required_def.p_is_empty = sp_is_empty;
        p->deprecated_def.p_remove = sp_remove; p->deprecated_def.u_is_in_pool = sp_unit_is_in_pool;
        world_init_thread(SCHEDP[e], 0, 0, ESP[e], ABTI_THREAD_TYPE_MAIN_SCHED);
        world_init_thread(ULTP[e], p, SCHEDP[e], ESP[e], 0);
        ESP[e]->p_thread = &ULTP[e]->thread; ESP[e]->rank = e; ESP[e]->type = e ? ABTI_XSTREAM_TYPE_SECONDARY : ABTI_XSTREAM_TYPE_PRIMARY;
        ESP[e]->state.val = ABT_XSTREAM_STATE_RUNNING;
    }
#ifdef VR_RESUME_ELSEWHERE
    world_init_thread(&SCHEDX, 0, 0, &ESX, ABTI_THREAD_TYPE_MAIN_SCHED);
    ESX.p_thread = &SCHEDX.thread; ESX.rank = NES; ESX.type = ABTI_XSTREAM_TYPE_SECONDARY; ESX.state.val = ABT_XSTREAM_STATE_RUNNING;
    G.num_xstreams = NES + 1; G.max_xstreams = NES + 1;
#endif
}
/* standard "blocked ULT" continuation: the scheduler of ESk waits until ULTk is in its pool again, pops it with the
 * pool interface and runs it.  While waiting, other agents act.  If nobody can act any more: stuck predicate. */
static void world_wait_and_resume(int k)
{
    int me = k;
    vr_depth++;
    for (int i = 0; i < VR_SLEEP_STEPS; i++) { if (sp_in[k]) break; env_step(); }
    vr_depth--;
    as_agent(me);
    if (!sp_in[k]) { vr_stuck("ULT blocked, never pushed back and no agent is left that could resume it"); __CPROVER_assume(0); }
    ABT_thread t = ABTI_pool_pop(ULTP[k]->thread.p_pool, ABT_POOL_CONTEXT_OP_POOL_OTHER);
    __CPROVER_assert(t == (ABT_thread)ULTP[k], "the scheduler pops the resumed ULT");
    __CPROVER_assert(ULTP[k]->thread.state.val == ABT_THREAD_STATE_READY, "a ULT popped from its pool is READY");
    ESP[k]->p_thread = &SCHEDP[k]->thread;
    vr_resumed[k]++;
    ABTD_atomic_release_store_int(&ULTP[k]->thread.state, ABT_THREAD_STATE_RUNNING);   /* as ABTI_ythread_run_child does */
#ifdef VR_RESUME_ELSEWHERE
    if (vr_moved < 0) {    /* (always, in this variant: a solver choice here makes the agent identity symbolic and the encoding intractable; the stay-at-home case is the twin obligation without VR_RESUME_ELSEWHERE) */
        /* the idle spare stream popped it: the ULT continues there, its old stream is back in its scheduler */
        vr_moved = k; ESX.p_thread = &ULTP[k]->thread; ULTP[k]->thread.p_last_xstream = &ESX; ULTP[k]->thread.p_parent = &SCHEDX.thread;
        as_agent(k);
        return;
    }
    if (vr_moved == k) { ESX.p_thread = &ULTP[k]->thread; ULTP[k]->thread.p_last_xstream = &ESX; ULTP[k]->thread.p_parent = &SCHEDX.thread; as_agent(k); return; }
#endif
    ESP[k]->p_thread = &ULTP[k]->thread;
    ULTP[k]->thread.p_last_xstream = ESP[k];
}
#endif
