/* C07-O1: sequential specification of the built-in pools, one inductive step.
 * Pre-state: ANY queue of 0..NMAX units (order = symbolic permutation) satisfying the circular-list invariant, built
 * directly (no history).  One real operation with symbolic arguments.  Post: invariant + effect == ghost sequence.
 * KIND 0 = fifo.c, 1 = fifo_wait.c, 2 = randws.c ; SHARED 1/0 selects the _shared/_private variants. */
#include "abti.h"
#include "vr.h"
#include "stub_pthread.h"
#include "stub_time.h"
#if KIND == 0
#include "pool/fifo.c"
#elif KIND == 1
#include "pool/fifo_wait.c"
#else
#include "pool/randws.c"
#endif
ABTI_global *gp_ABTI_global;

#if KIND == 1
#define PUSH pool_push
#define POP pool_pop
#define PUSH_MANY pool_push_many
#define POP_MANY pool_pop_many
#define REMOVE pool_remove
#elif SHARED
#define PUSH pool_push_shared
#define POP pool_pop_shared
#define PUSH_MANY pool_push_many_shared
#define POP_MANY pool_pop_many_shared
#define REMOVE pool_remove_shared
#else
#define PUSH pool_push_private
#define POP pool_pop_private
#define PUSH_MANY pool_push_many_private
#define POP_MANY pool_pop_many_private
#define REMOVE pool_remove_private
#endif

#define NT 5
#define NMAX 3
/* separate objects (not an array): keeps cbmc's pointer dereferences field-sensitive */
static ABTI_thread T0, T1, T2, T3, T4;
static ABTI_thread *const TP[NT] = { &T0, &T1, &T2, &T3, &T4 };
static ABTI_pool P;
static data_t D;
static int g[NT + 2], gn; /* ghost sequence of thread indices, head first */

static void build(void)
{
    /* symbolic queue content */
    gn = nondet_int(); VR_ASSUME(gn >= 0 && gn <= NMAX);
#ifdef SYMORDER
    for (int i = 0; i < NMAX; i++) { g[i] = nondet_int(); VR_ASSUME(g[i] >= 0 && g[i] < NT); }
    VR_ASSUME(g[0] != g[1] && g[0] != g[2] && g[1] != g[2]);
#else
    /* units are interchangeable (the code never compares unit addresses), so the queue T[0],T[1],.. of symbolic LENGTH
     * represents every order; -DSYMORDER makes the order a symbolic permutation as well (thorough tier) */
    for (int i = 0; i < NMAX; i++) g[i] = i;
#endif
    for (int i = 0; i < NT; i++) { ABTI_unit_init_builtin(TP[i]); TP[i]->p_pool = &P; }
    thread_queue_t *q = &D.queue;
    q->num_threads = gn;
    q->is_empty.val = (gn == 0);
    q->p_head = gn ? TP[g[0]] : NULL;
    q->p_tail = gn ? TP[g[gn - 1]] : NULL;
    for (int i = 0; i < NMAX; i++) if (i < gn) {
        ABTI_thread *t = TP[g[i]];
        t->p_next = TP[g[(i + 1) % gn]];
        t->p_prev = TP[g[(i + gn - 1) % gn]];
        t->is_in_pool.val = 1;
    }
    P.data = &D; P.is_builtin = ABT_TRUE;
    P.access = SHARED ? ABT_POOL_ACCESS_MPMC : ABT_POOL_ACCESS_PRIV;
#if KIND != 1
    D.mutex.val.val = 0;
#endif
}
static int in_ghost(int k) { for (int i = 0; i < NT; i++) if (i < gn && g[i] == k) return 1; return 0; }
static void check_inv(void)
{
    thread_queue_t *q = &D.queue;
    VR_ASSERT(q->num_threads == (size_t)gn, "size == ghost length");
    VR_ASSERT((q->is_empty.val != 0) == (gn == 0), "is_empty flag exact");
    VR_ASSERT(pool_get_size((ABT_pool)&P) == (size_t)gn && (pool_is_empty((ABT_pool)&P) == ABT_TRUE) == (gn == 0), "size/emptiness queries exact at quiescence");
    if (gn == 0) { VR_ASSERT(q->p_head == NULL && q->p_tail == NULL, "empty queue has NULL head/tail"); }
    else {
        VR_ASSERT(q->p_head == TP[g[0]], "head is ghost[0]");
        VR_ASSERT(q->p_tail == TP[g[gn - 1]], "tail is ghost[last]");
        for (int i = 0; i < NT; i++) if (i < gn) {
            VR_ASSERT(TP[g[i]]->p_next == TP[g[(i + 1) % gn]], "next links follow ghost order (circular)");
            VR_ASSERT(TP[g[i]]->p_prev == TP[g[(i + gn - 1) % gn]], "prev links follow ghost order (circular)");
        }
    }
    for (int k = 0; k < NT; k++) {
        int in = in_ghost(k);
        VR_ASSERT((TP[k]->is_in_pool.val != 0) == in, "is_in_pool flag exact for every unit");
        if (!in) VR_ASSERT(TP[k]->p_next == NULL && TP[k]->p_prev == NULL, "unit outside the pool is unlinked");
    }
#if KIND != 1
    VR_ASSERT(D.mutex.val.val == 0, "pool lock released");
#else
    VR_ASSERT(vr_mutex_owner == 0, "pool pthread mutex released");
#endif
}
static void g_push_tail(int k) { g[gn++] = k; }
static void g_push_head(int k) { for (int i = NT; i > 0; i--) g[i] = g[i - 1]; g[0] = k; gn++; }
static int g_pop_head(void) { int k = g[0]; for (int i = 0; i < NT; i++) g[i] = g[i + 1]; gn--; return k; }
static int g_pop_tail(void) { return g[--gn]; }
static void g_remove(int k) { int j = 0; for (int i = 0; i < NT + 1; i++) if (i < gn && g[i] != k) g[j++] = g[i]; gn = j; }

static ABT_pool_context nd_ctx(void)
{
    /* at most one OP flag, at most one OWNER flag, at most one PRIO flag (documented precondition of built-in pools) */
    ABT_pool_context c = 0; int a = nondet_int(), b = nondet_int(), p = nondet_int();
    VR_ASSUME(a >= 0 && a < 14 && b >= 0 && b < 3 && p >= 0 && p < 3);
    if (a) c |= (ABT_pool_context)(0x800u << a);   /* 0x1000 .. : the OP flags */
    if (b == 1) c |= ABT_POOL_CONTEXT_OWNER_PRIMARY; else if (b == 2) c |= ABT_POOL_CONTEXT_OWNER_SECONDARY;
    c |= (ABT_pool_context)p;
    return c;
}
#if KIND == 2
#define PUSHES_HEAD(c) (((c) & (ABT_POOL_CONTEXT_OP_THREAD_CREATE | ABT_POOL_CONTEXT_OP_THREAD_CREATE_TO | ABT_POOL_CONTEXT_OP_THREAD_REVIVE | ABT_POOL_CONTEXT_OP_THREAD_REVIVE_TO)) != 0)
#define POPS_TAIL(c) (((c) & ABT_POOL_CONTEXT_OWNER_SECONDARY) != 0)
#else
#define PUSHES_HEAD(c) 0
#define POPS_TAIL(c) 0
#endif
#if KIND == 1
/* FIFO_WAIT: consumers blocked in pop_wait/pop_timedwait sleep on the pool's condition variable.  With nwait of them
 * asleep (symbolic), a push of m units must deliver at least min(m, nwait) wake-ups (signal = 1, broadcast = all),
 * otherwise a unit pushed while a consumer waits is not handed to it until its timeout. */
static void check_wakeups(int m, int nwait)
{
    int delivered = vr_cond_broadcasts ? nwait : (vr_cond_signals < nwait ? vr_cond_signals : nwait);
    int need = m < nwait ? m : nwait;
    VR_ASSERT(delivered >= need, "FIFO_WAIT push wakes enough blocked consumers for the units it adds");
}
#else
#define check_wakeups(m, n) ((void)0)
#endif
static int idx_of(ABT_thread th) { for (int i = 0; i < NT; i++) if (th == (ABT_thread)TP[i]) return i; return -1; }

int main(void)
{
    build();
    ABT_pool pool = (ABT_pool)&P;
    ABT_pool_context ctx = nd_ctx();
    int gn0 = gn;
    int nwait = nondet_int(); VR_ASSUME(nwait >= 0 && nwait <= 2);
#if OP == 0 /* push one unit that is not in the pool */
    int k = nondet_int(); VR_ASSUME(k >= 0 && k < NT && !in_ghost(k));
    PUSH(pool, TP[k]->unit, ctx);
    check_wakeups(1, nwait);
#if KIND == 2
    if (PUSHES_HEAD(ctx)) { g_push_head(k); if (gn0 == 2) VR_WITNESS("push at head"); } else
#endif
    { g_push_tail(k); if (gn0 == 3) VR_WITNESS("push at tail of 3"); }
    check_inv();
#elif OP == 1 /* pop */
    ABT_thread th = POP(pool, ctx);
    if (gn0 == 0) { VR_ASSERT(th == ABT_THREAD_NULL, "pop on empty returns NULL"); VR_WITNESS("pop empty"); }
    else { int e = POPS_TAIL(ctx) ? g_pop_tail() : g_pop_head(); VR_ASSERT(th == (ABT_thread)TP[e], "pop returns the unit at the pop end"); if (gn0 == 3) VR_WITNESS("pop from 3"); if (gn0 == 1) VR_WITNESS("pop last"); }
    check_inv();
#elif OP == 2 /* push_many of m<=2 units not in the pool */
    int m = nondet_int(); VR_ASSUME(m >= 0 && m <= 2);
    int k0 = nondet_int(), k1 = nondet_int();
    VR_ASSUME(k0 >= 0 && k0 < NT && k1 >= 0 && k1 < NT && k0 != k1 && !in_ghost(k0) && !in_ghost(k1));
    ABT_unit us[2] = { TP[k0]->unit, TP[k1]->unit };
    PUSH_MANY(pool, us, (size_t)m, ctx);
    check_wakeups(m, nwait);
    for (int i = 0; i < 2; i++) if (i < m) { if (PUSHES_HEAD(ctx)) g_push_head(i ? k1 : k0); else g_push_tail(i ? k1 : k0); }
    if (m == 2 && gn0 == 3) VR_WITNESS("push_many 2 onto 3");
    check_inv();
#elif OP == 3 /* pop_many */
    size_t mx = nondet_size_t(); VR_ASSUME(mx <= 4);
    ABT_thread out[4] = { 0, 0, 0, 0 }; size_t np = 99;
    POP_MANY(pool, out, mx, &np, ctx);
    size_t exp = mx < (size_t)gn0 ? mx : (size_t)gn0;
    VR_ASSERT(np == exp, "pop_many pops min(max, size)");
    for (size_t i = 0; i < 4; i++) if (i < exp) { int e = POPS_TAIL(ctx) ? g_pop_tail() : g_pop_head(); VR_ASSERT(out[i] == (ABT_thread)TP[e], "pop_many returns units in pop order"); }
    if (gn0 == 3 && mx == 2) VR_WITNESS("pop_many 2 of 3");
    if (gn0 == 2 && mx == 4) VR_WITNESS("pop_many drains");
    check_inv();
#elif OP == 4 /* remove any unit (member or not) */
    int k = nondet_int(); VR_ASSUME(k >= 0 && k < NT);
    int was = in_ghost(k), washead = (gn > 0 && k == g[0]), wastail = (gn > 0 && k == g[gn - 1]);
    int r = REMOVE(pool, TP[k]->unit);
    VR_ASSERT((r == ABT_SUCCESS) == was, "remove succeeds iff the unit is in the pool");
    if (was) g_remove(k);
    if (was && gn0 == 3 && washead) VR_WITNESS("removed the head of 3");
    if (was && gn0 == 3 && wastail) VR_WITNESS("removed the tail of 3");
    if (was && gn0 == 3 && !washead && !wastail) VR_WITNESS("removed the middle of 3");
    if (!was) VR_WITNESS("remove of non-member rejected");
    check_inv();
#elif OP == 5 /* pop_wait / pop_timedwait: non-empty => returns the head immediately; empty => returns NULL after the clock passes */
    double secs = nondet_double(); VR_ASSUME(secs >= 0.0 && secs < 1e6);
    ABT_thread th;
    if (nondet_bool()) { th = pool_pop_wait(pool, secs, ctx); }
    else { ABT_unit u = pool_pop_timedwait(pool, secs); th = (u == ABT_UNIT_NULL) ? ABT_THREAD_NULL : (ABT_thread)ABTI_unit_get_thread_from_builtin_unit(u); ctx = 0; }
    if (gn0 == 0) { VR_ASSERT(th == ABT_THREAD_NULL, "pop_wait on an empty pool returns NULL"); VR_WITNESS("pop_wait timed out"); }
    else { int e = POPS_TAIL(ctx) ? g_pop_tail() : g_pop_head(); VR_ASSERT(th == (ABT_thread)TP[e], "pop_wait returns the unit at the pop end"); VR_WITNESS("pop_wait got a unit"); }
    check_inv();
#endif
    return 0;
}
