/* C07-O5 / C19: the real pool operations under preemption-point scheduling.  Focus = one real operation of a shared-access
 * FIFO / RANDWS pool, instruction by instruction (every atomic access: the unlocked is_empty fast path, the lock word);
 * at each of these points -- whenever the pool lock is free, since environment operations run to completion -- the solver may
 * run COMPLETE real pushes/pops of other streams on the same pool (<= ENV_BUDGET).  Required when the focus returns:
 * the pool lock is free again (on EVERY path, also when the queue was emptied between the emptiness test and the lock),
 * every unit is in exactly one place (queue / returned to the focus / returned to the environment), nothing returned twice,
 * the queue satisfies its invariant (circular list, count, emptiness flag), a non-waiting pop on a never-empty queue succeeds.
 * OP 1 pop  3 pop_many  5 pop_wait (short timeout, virtual clock)  0 push */
#include "vr_hooks.h"
#include "abti.h"
#include "vr.h"
#include "stub_pthread.h"
#include "stub_time.h"
#include "stub_io.h"
#if KIND == 0
#include "pool/fifo.c"
#define GETDEF ABTI_pool_get_fifo_def
#else
#include "pool/randws.c"
#define GETDEF ABTI_pool_get_randws_def
#endif
#ifndef ENV_BUDGET
#define ENV_BUDGET 2
#endif
ABTI_global *gp_ABTI_global; ABTD_XSTREAM_LOCAL ABTI_local *lp_ABTI_local;
static ABTI_thread T0, T1, T2, T3;
static ABTI_thread *const TP[4] = { &T0, &T1, &T2, &T3 };
static ABTI_pool P; static data_t D;
static int where[4];       /* 0 in the queue, 1 owned by the focus agent, 2 owned by the environment */
static int in_env, env_left = ENV_BUDGET, env_ops, was_empty, env_pop_null;
static int tidx(ABT_thread t) { for (int i = 0; i < 4; i++) if ((ABTI_thread *)t == TP[i]) return i; return -1; }
static void env_step(void)
{
    if (env_left <= 0 || D.mutex.val.val != 0) return;          /* a peer operation can complete only while the lock is free */
    env_left--; env_ops++; in_env = 1;
#ifdef ENV_MODEL
    /* peers drain the queue completely: the NET EFFECT of their complete pops (whose own behaviour the seq_* obligations
     * decide) -- running the real pops here makes the encoding intractable (tagged unit pointers on a symbolic queue) */
    { ABTI_thread *q = D.queue.p_head; for (int i = 0; i < 4; i++) if ((size_t)i < D.queue.num_threads) { int k = tidx((ABT_thread)q); ABTI_thread *nx = q->p_next; if (k >= 0) { where[k] = 2; TP[k]->is_in_pool.val = 0; TP[k]->p_next = TP[k]->p_prev = NULL; } q = nx; } }
    D.queue.num_threads = 0; D.queue.p_head = D.queue.p_tail = NULL; D.queue.is_empty.val = 1;
#else
    if (nondet_bool()) {
        ABT_thread t = P.required_def.p_pop((ABT_pool)&P, ABT_POOL_CONTEXT_OP_POOL_OTHER);
        if (t != ABT_THREAD_NULL) { int i = tidx(t); VR_ASSERT(i >= 0 && where[i] == 0, "a peer's pop returns a unit that was in the queue"); if (i >= 0) where[i] = 2; }
        else env_pop_null = 1;
    } else {
        int k = nondet_int(); __CPROVER_assume(k >= 0 && k < 4 && where[k] == 2);
        where[k] = 0; P.required_def.p_push((ABT_pool)&P, TP[k]->unit, ABT_POOL_CONTEXT_OP_POOL_OTHER);
    }
#endif
    if (D.queue.num_threads == 0) was_empty = 1;
    in_env = 0;
}
void vr_sp(void) { if (in_env) return; if (nondet_bool()) env_step(); }
static void check_queue(void)
{
    size_t n = D.queue.num_threads; int cnt = 0;
    VR_ASSERT(n <= 4, "queue length in range");
    VR_ASSERT((D.queue.is_empty.val != 0) == (n == 0), "emptiness flag agrees with the count at quiescence");
    ABTI_thread *p = D.queue.p_head;
    for (int i = 0; i < 4; i++) if ((size_t)i < n) { int k = tidx((ABT_thread)p); VR_ASSERT(k >= 0 && where[k] == 0, "queued units are exactly the units that are in no agent's hands"); if (k < 0) return; where[k] = 10; cnt++; p = p->p_next; }
    if (n > 0) VR_ASSERT(p == D.queue.p_head, "the queue is circular over exactly its count");
    for (int i = 0; i < 4; i++) { VR_ASSERT(where[i] != 0, "no unit is lost: every unit that is in nobody's hands is in the queue"); if (where[i] == 10) where[i] = 0; }
}
int main(void)
{
    P.access = ABT_POOL_ACCESS_MPMC; P.is_builtin = ABT_TRUE; P.data = &D;
    int r = GETDEF(ABT_POOL_ACCESS_MPMC, &P.required_def, &P.optional_def, &P.deprecated_def);
    VR_ASSERT(r == ABT_SUCCESS, "operation table available");
    for (int i = 0; i < 4; i++) ABTI_unit_init_builtin(TP[i]);
    int n0 = nondet_int(); __CPROVER_assume(n0 >= 0 && n0 <= 2);
    D.queue.num_threads = n0; D.queue.is_empty.val = n0 == 0; D.mutex.val.val = 0;
    if (n0 == 1) { D.queue.p_head = D.queue.p_tail = &T0; T0.p_next = T0.p_prev = &T0; T0.is_in_pool.val = 1; }
    if (n0 == 2) { D.queue.p_head = &T0; D.queue.p_tail = &T1; T0.p_next = T0.p_prev = &T1; T1.p_next = T1.p_prev = &T0; T0.is_in_pool.val = T1.is_in_pool.val = 1; }
    for (int i = 0; i < 4; i++) where[i] = i < n0 ? 0 : (i == 3 ? 1 : 2);      /* T3 belongs to the focus agent, the rest to peers */
    was_empty = n0 == 0;
    ABT_pool pool = (ABT_pool)&P;
#if OP == 0
    where[3] = 0; P.required_def.p_push(pool, T3.unit, ABT_POOL_CONTEXT_OP_POOL_OTHER);
#elif OP == 1
    ABT_thread t = P.required_def.p_pop(pool, ABT_POOL_CONTEXT_OP_POOL_OTHER);
    if (t != ABT_THREAD_NULL) { int i = tidx(t); VR_ASSERT(i >= 0 && where[i] == 0, "pop returns a unit that was in the queue (handed out once)"); if (i >= 0) where[i] = 1; }
    else VR_ASSERT(was_empty, "pop returns nothing only if the queue was empty at some moment of the call");
#elif OP == 3
    ABT_thread out[2] = { ABT_THREAD_NULL, ABT_THREAD_NULL }; size_t n = 0;
    P.optional_def.p_pop_many(pool, out, 2, &n, ABT_POOL_CONTEXT_OP_POOL_OTHER);
    VR_ASSERT(n <= 2, "pop_many count in range");
    for (int j = 0; j < 2; j++) if ((size_t)j < n) { int i = tidx(out[j]); VR_ASSERT(i >= 0 && where[i] == 0, "pop_many returns units that were in the queue, each once"); if (i >= 0) where[i] = 1; }
    if (n == 0) VR_ASSERT(was_empty, "pop_many returns nothing only if the queue was empty at some moment of the call");
#elif OP == 5
    ABT_thread t = P.optional_def.p_pop_wait(pool, 0.001, ABT_POOL_CONTEXT_OP_POOL_OTHER);
    if (t != ABT_THREAD_NULL) { int i = tidx(t); VR_ASSERT(i >= 0 && where[i] == 0, "pop_wait returns a unit that was in the queue (handed out once)"); if (i >= 0) where[i] = 1; }
#endif
    VR_ASSERT(D.mutex.val.val == 0, "the pool lock is free when the operation returns -- on every path");
    check_queue();
    if (env_ops >= 1 && env_pop_null == 0 && was_empty && n0 >= 1) VR_WITNESS("a peer emptied the queue during the operation");
#if ENV_BUDGET >= 2
    if (env_ops >= 2) VR_WITNESS("two peer operations interleaved");
#endif
    return 0;
}
