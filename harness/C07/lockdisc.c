/* C07-O4: lock discipline of the operation table.  For each pool kind and each access mode, take the operations exactly
 * as ABTI_pool_get_*_def installs them and run one of them on a NON-EMPTY queue whose pool lock is currently HELD BY
 * ANOTHER STREAM.  In every access mode that permits a concurrent peer the operation must wait for the lock (the spin
 * loop is cut by an unwinding assumption, so nothing after the call is reachable); only ABT_POOL_ACCESS_PRIV may run
 * through.  A pop/push variant that skips the lock (e.g. a *_private function installed for SPSC/MPSC) is reached. */
#include "abti.h"
#include "vr.h"
#define VR_MUTEX_OTHER_BLOCKS
#include "stub_pthread.h"
#include "stub_time.h"
#include "stub_io.h"
#if KIND == 0
#include "pool/fifo.c"
#define GETDEF ABTI_pool_get_fifo_def
#elif KIND == 1
#include "pool/fifo_wait.c"
#define GETDEF ABTI_pool_get_fifo_wait_def
#else
#include "pool/randws.c"
#define GETDEF ABTI_pool_get_randws_def
#endif
ABTI_global *gp_ABTI_global;
static ABTI_thread T0, T1, T2;
static ABTI_pool P;
static data_t D;

int main(void)
{
    ABT_pool_access access = (ABT_pool_access)ACCESS;
    P.access = access; P.is_builtin = ABT_TRUE; P.data = &D;
    int r = GETDEF(access, &P.required_def, &P.optional_def, &P.deprecated_def);
    VR_ASSERT(r == ABT_SUCCESS, "operation table available for this access mode");
    ABTI_unit_init_builtin(&T0); ABTI_unit_init_builtin(&T1); ABTI_unit_init_builtin(&T2);
    /* queue = [T0, T1] */
    D.queue.num_threads = 2; D.queue.is_empty.val = 0; D.queue.p_head = &T0; D.queue.p_tail = &T1;
    T0.p_next = &T1; T0.p_prev = &T1; T1.p_next = &T0; T1.p_prev = &T0; T0.is_in_pool.val = 1; T1.is_in_pool.val = 1;
    /* the pool lock is held by another execution stream */
#ifndef LOCKFREE
#if KIND == 1
    vr_mutex_owner = 2;
#else
    D.mutex.val.val = 1;
#endif
#endif
    ABT_pool pool = (ABT_pool)&P;
    ABT_pool_context ctx = (ABT_pool_context)nondet_uint();
#if OP == 0
    P.required_def.p_push(pool, T2.unit, ctx);
#elif OP == 1
    (void)P.required_def.p_pop(pool, ctx);
#elif OP == 2
    { ABT_unit us[1] = { T2.unit }; P.optional_def.p_push_many(pool, us, 1, ctx); }
#elif OP == 3
    { ABT_thread out[2]; size_t n; P.optional_def.p_pop_many(pool, out, 2, &n, ctx); }
#elif OP == 4
    (void)P.deprecated_def.p_remove(pool, T1.unit);
#elif OP == 5
    (void)P.optional_def.p_pop_wait(pool, 1.0, ctx);
#endif
#ifdef LOCKFREE
    VR_WITNESS("with the lock free the operation completes (vacuity guard of the blocked twin)");
#elif ACCESS == 0 && KIND != 1 && OP != 5
    VR_WITNESS("private access runs without the lock");
#else
    VR_ASSERT(0, "an operation of a shared-access pool ran through a pool lock held by another stream");
    /* vacuity guard for this shape lives in the PRIV twin and in the 'lock free' twin below */
#endif
    return 0;
}
