/* C18 / C16: lazy creation of a work unit's key table when the allocation fails.
 * Focus = real ABTI_ktable_set on a unit that has no table yet (caller = external thread: the table is malloc'ed, typed arena).
 *  - its own allocation may fail (symbolic): error code, the table pointer is NULL again (not left "locked"), a retry succeeds;
 *  - ANOTHER agent may be creating the table at the same time (environment model of the other agent's two steps: take the
 *    creation lock = store LOCKED; then either publish a table or -- its allocation failed -- store NULL again), placed by the
 *    solver at the focus' atomic accesses and polling points: the focus must then retry, never use a NULL / LOCKED table. */
#include "vr_hooks.h"
#include "abti.h"
#include "vr.h"
#include "stub_io.h"
#include <errno.h>
struct tblk { ABTI_ktable_mem_header h; ABTI_ktable kt; char pad0[8]; ABTI_ktelem e0; char pad1[28]; uint32_t extflag; };
static struct tblk TB_MINE, TB_OTHER;
static int nalloc, fail_mine, used_mine, env_pc, env_fails, polls;       /* env_pc: 0 idle, 1 holds the creation lock, 2 done */
static ABTD_atomic_ptr KT;
int posix_memalign(void **p, size_t al, size_t sz)
{
    __CPROVER_assert(sz == 128 && sizeof(struct tblk) == 128, "key table block");
    if (nalloc++ == 0 && fail_mine) return ENOMEM;
    __CPROVER_assert(!used_mine, "one table per unit"); used_mine = 1; *p = &TB_MINE; return 0;
}
void free(void *p) { __CPROVER_assert(0, "nothing is freed in this scenario"); }
void *memset(void *d, int c, size_t n) { return d; }
ABTI_global *gp_ABTI_global; ABTD_XSTREAM_LOCAL ABTI_local *lp_ABTI_local;
static ABTI_global G; static ABTI_key K;
static void env_step(void)
{
    if (env_pc == 0 && KT.val == NULL && nondet_bool()) { KT.val = ABTI_KTABLE_LOCKED; env_pc = 1; }
    else if (env_pc == 1 && nondet_bool()) {
        if (nondet_bool()) { env_fails = 1; KT.val = NULL; }                    /* the other agent's allocation failed */
        else { TB_OTHER.kt.size = 1; TB_OTHER.kt.lock.val.val = 0; TB_OTHER.kt.p_used_mem = &TB_OTHER; TB_OTHER.kt.p_extra_mem = &TB_OTHER.e0; TB_OTHER.kt.extra_mem_size = 32 + 28; TB_OTHER.kt.p_elems[0].val = NULL; TB_OTHER.h.p_next = NULL; TB_OTHER.h.is_from_mempool = ABT_FALSE; KT.val = &TB_OTHER.kt; }
        env_pc = 2;
    }
}
static int in_env;
void vr_sp(void) { if (in_env) return; in_env = 1; env_step(); in_env = 0; }
void vr_pause(void)
{   /* the focus polls while the table pointer is LOCKED: the other agent finishes eventually */
    polls++; if (env_pc == 1) { in_env = 1; env_step(); in_env = 0; }
    if (polls >= 2) __CPROVER_assume(env_pc != 1);
}
int main(void)
{
    gp_ABTI_global = &G; G.key_table_size = 1; K.id = 7; K.f_destructor = NULL;
    KT.val = NULL; fail_mine = nondet_bool();
    int r = ABTI_ktable_set(&G, NULL, &KT, &K, (void *)&G);
    if (r == ABT_SUCCESS) {
        VR_ASSERT(ABTI_ktable_is_valid((ABTI_ktable *)KT.val), "after a successful set the unit has a real key table");
        VR_ASSERT(ABTI_ktable_get(&KT, &K) == (void *)&G, "the value is stored");
        if (env_fails) VR_WITNESS("the other agent's creation failed while the focus was waiting; the focus created the table itself");
        if (env_pc == 2 && !env_fails && KT.val == (void *)&TB_OTHER.kt) VR_WITNESS("the focus used the table published by the other agent");
    } else {
        VR_ASSERT(fail_mine, "the set fails only if its own allocation failed");
        VR_ASSERT(KT.val != ABTI_KTABLE_LOCKED || env_pc == 1, "a failed creation does not leave the table pointer locked (a retry would spin forever)");
        if (env_pc == 0) { fail_mine = 0; nalloc = 1; int r2 = ABTI_ktable_set(&G, NULL, &KT, &K, (void *)&G); VR_ASSERT(r2 == ABT_SUCCESS && ABTI_ktable_get(&KT, &K) == (void *)&G, "the same call succeeds when retried without the failure"); VR_WITNESS("own allocation failed; retry succeeded"); }
    }
    return 0;
}
