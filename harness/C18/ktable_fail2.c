/* C18 / C16: adding a key to an EXISTING key table whose spare space is used up, when the allocation of the next block fails
 * (caller = external thread: the block is malloc'ed; typed arena).  Real ABTI_ktable_set: error code, the table keeps its old
 * entries, its LOCK IS RELEASED (a held lock would make every later set of a new key on this unit spin forever), and the same
 * call succeeds when retried. */
#include "abti.h"
#include "vr.h"
#include "stub_io.h"
#include <errno.h>
struct tblk { ABTI_ktable_mem_header h; ABTI_ktable kt; char pad0[8]; ABTI_ktelem e0; char pad1[28]; uint32_t extflag; };
struct eblk { ABTI_ktable_mem_header h; ABTI_ktelem e[3]; char pad1[12]; uint32_t extflag; };
static struct tblk TB; static struct eblk EB;
static int nalloc, fail_first, eb_used;
int posix_memalign(void **p, size_t al, size_t sz)
{
    __CPROVER_assert(sz == 128 && sizeof(struct tblk) == 128 && sizeof(struct eblk) == 128, "one descriptor-sized block");
    if (nalloc++ == 0 && fail_first) return ENOMEM;
    __CPROVER_assert(!eb_used, "one more block"); eb_used = 1; *p = &EB; return 0;
}
void free(void *p) { __CPROVER_assert(0, "nothing is freed in this scenario"); }
void *memset(void *d, int c, size_t n) { return d; }
ABTI_global *gp_ABTI_global; ABTD_XSTREAM_LOCAL ABTI_local *lp_ABTI_local;
static ABTI_global G; static ABTI_key K1, K2; static ABTD_atomic_ptr KT;
int main(void)
{
    gp_ABTI_global = &G; G.key_table_size = 1; K1.id = 5; K2.id = 7;
    /* the table as the real code lays it out after the first key: one slot, one element, 28 spare bytes (< one element) */
    TB.h.p_next = NULL; TB.h.is_from_mempool = ABT_FALSE; TB.extflag = 1; TB.kt.size = 1; TB.kt.lock.val.val = 0; TB.kt.p_used_mem = &TB; TB.kt.p_extra_mem = &TB.pad1; TB.kt.extra_mem_size = 28;
    TB.kt.p_elems[0].val = &TB.e0; TB.e0.key_id = 5; TB.e0.value = &K1; TB.e0.f_destructor = NULL; TB.e0.p_next.val = NULL;
    KT.val = &TB.kt;
    fail_first = nondet_bool();
    int r = ABTI_ktable_set(&G, NULL, &KT, &K2, (void *)&K2);
    VR_ASSERT(TB.kt.lock.val.val == 0, "the key table's lock is released on every path (a failed allocation must not leave it held)");
    VR_ASSERT(ABTI_ktable_get(&KT, &K1) == (void *)&K1, "existing entries are untouched");
    if (r != ABT_SUCCESS) {
        VR_ASSERT(fail_first, "the set fails only if the allocation failed");
        VR_ASSERT(ABTI_ktable_get(&KT, &K2) == NULL, "a failed set stores nothing");
        int r2 = ABTI_ktable_set(&G, NULL, &KT, &K2, (void *)&K2);
        VR_ASSERT(r2 == ABT_SUCCESS && ABTI_ktable_get(&KT, &K2) == (void *)&K2 && TB.kt.lock.val.val == 0, "the same call succeeds when retried without the failure");
        VR_WITNESS("allocation of the next block failed; retry succeeded");
    } else { VR_ASSERT(ABTI_ktable_get(&KT, &K2) == (void *)&K2, "the value is stored"); VR_WITNESS("stored in a new block"); }
    return 0;
}
