/* C18: a failed allocation makes a creating routine fail cleanly.
 * The k-th allocation request (k symbolic) of the routine selected by -DWHICH fails.  Checked: error code instead of a
 * crash, no block left allocated (ledger), output handle = documented NULL handle (1.x API) or untouched, and the same
 * call succeeds when retried without the failure (then the object is freed: ledger back to zero).
 * Allocation model: posix_memalign = cbmc's malloc plus a ledger and the fault injector; free keeps the ledger. */
#include <stdlib.h>
#include <errno.h>
void vr_free(void *p);
#define free(p) vr_free(p)          /* before abtu.h, so that ABTU_free() keeps the ledger */
#include "abti.h"
#include "vr.h"
#include "stub_io.h"
#include "stub_pthread.h"
static int vr_nalloc, vr_fail_at = -1, vr_live, vr_failed;
int posix_memalign(void **p, size_t al, size_t sz)
{
    if (vr_nalloc++ == vr_fail_at) { vr_failed = 1; return ENOMEM; }
    void *q = malloc(sz); __CPROVER_assume(q != NULL);
    vr_live++; *p = q; return 0;
}
void vr_free(void *p) { if (p) { vr_live--; (free)(p); } }
static int pb_fail;
int pthread_barrier_init(pthread_barrier_t *b, const pthread_barrierattr_t *a, unsigned c) { if (vr_nalloc++ == vr_fail_at) { vr_failed = 1; return EAGAIN; } return 0; }
int pthread_barrier_wait(pthread_barrier_t *b) { return 0; }
int pthread_barrier_destroy(pthread_barrier_t *b) { return 0; }
#include "mutex.c"
#include "mutex_attr.c"
#include "cond.c"
#include "barrier.c"
#include "eventual.c"
#include "futures.c"
#include "rwlock.c"
#include "key.c"
#include "timer.c"
#include "thread_attr.c"
#include "stream_barrier.c"
#include "arch/abtd_stream.c"
#include "arch/abtd_time.c"
ABTI_global *gp_ABTI_global;
ABTD_XSTREAM_LOCAL ABTI_local *lp_ABTI_local;
static ABTI_global G;
#define SENT ((void *)&G)     /* "untouched" sentinel for output handles */

#if WHICH == 0
#define T ABT_mutex
#define NULLH ABT_MUTEX_NULL
#define CREATE(h) ABT_mutex_create(h)
#define FREE(h) ABT_mutex_free(h)
#define NAME "ABT_mutex_create"
#elif WHICH == 1
#define T ABT_mutex
#define NULLH ABT_MUTEX_NULL
#define CREATE(h) ABT_mutex_create_with_attr(ABT_MUTEX_ATTR_NULL, h)
#define FREE(h) ABT_mutex_free(h)
#define NAME "ABT_mutex_create_with_attr"
#elif WHICH == 2
#define T ABT_mutex_attr
#define NULLH ABT_MUTEX_ATTR_NULL
#define CREATE(h) ABT_mutex_attr_create(h)
#define FREE(h) ABT_mutex_attr_free(h)
#define NAME "ABT_mutex_attr_create"
#elif WHICH == 3
#define T ABT_cond
#define NULLH ABT_COND_NULL
#define CREATE(h) ABT_cond_create(h)
#define FREE(h) ABT_cond_free(h)
#define NAME "ABT_cond_create"
#elif WHICH == 4
#define T ABT_barrier
#define NULLH ABT_BARRIER_NULL
#define CREATE(h) ABT_barrier_create(arg_u32, h)
#define FREE(h) ABT_barrier_free(h)
#define ARGOK (arg_u32 != 0)
#define NAME "ABT_barrier_create"
#elif WHICH == 5
#define T ABT_eventual
#define NULLH ABT_EVENTUAL_NULL
#define CREATE(h) ABT_eventual_create((int)arg_u32, h)
#define FREE(h) ABT_eventual_free(h)
#define ARGOK (arg_u32 <= 64)
#define NAME "ABT_eventual_create"
#elif WHICH == 6
#define T ABT_future
#define NULLH ABT_FUTURE_NULL
#define CREATE(h) ABT_future_create(arg_u32, NULL, h)
#define FREE(h) ABT_future_free(h)
#define ARGOK (arg_u32 <= 8)
#define NAME "ABT_future_create"
#elif WHICH == 7
#define T ABT_rwlock
#define NULLH ABT_RWLOCK_NULL
#define CREATE(h) ABT_rwlock_create(h)
#define FREE(h) ABT_rwlock_free(h)
#define NAME "ABT_rwlock_create"
#elif WHICH == 8
#define T ABT_key
#define NULLH ABT_KEY_NULL
#define CREATE(h) ABT_key_create(NULL, h)
#define FREE(h) ABT_key_free(h)
#define NAME "ABT_key_create"
#elif WHICH == 9
#define T ABT_timer
#define NULLH ABT_TIMER_NULL
#define CREATE(h) ABT_timer_create(h)
#define FREE(h) ABT_timer_free(h)
#define NAME "ABT_timer_create"
#elif WHICH == 10
#define T ABT_thread_attr
#define NULLH ABT_THREAD_ATTR_NULL
#define CREATE(h) ABT_thread_attr_create(h)
#define FREE(h) ABT_thread_attr_free(h)
#define NAME "ABT_thread_attr_create"
#elif WHICH == 11
#define T ABT_xstream_barrier
#define NULLH ABT_XSTREAM_BARRIER_NULL
#define CREATE(h) ABT_xstream_barrier_create(arg_u32, h)
#define FREE(h) ABT_xstream_barrier_free(h)
#define ARGOK (arg_u32 != 0)
#define NAME "ABT_xstream_barrier_create"
#endif
#ifndef ARGOK
#define ARGOK 1
#endif

int main(void)
{
    gp_ABTI_global = &G; G.thread_stacksize = 16384; G.key_table_size = 4;
    uint32_t arg_u32 = nondet_u32(); VR_ASSUME(ARGOK);
    /* how many allocation requests does a failure-free call make?  (measured in this very run) */
    T h0 = (T)SENT; int r = CREATE(&h0);
    VR_ASSERT(r == ABT_SUCCESS && h0 != NULLH && h0 != (T)SENT, NAME ": succeeds when nothing fails");
    int nreq = vr_nalloc, live_ok = vr_live;
    VR_ASSERT(nreq >= 1 && nreq <= 3, "allocation requests of one call are within the expected range");
    /* now the k-th request of a second, identical call fails */
    int k = nondet_int(); VR_ASSUME(k >= 0 && k < nreq);
    vr_nalloc = 0; vr_fail_at = k; vr_failed = 0;
    T h = (T)SENT; r = CREATE(&h);
    VR_ASSERT(vr_failed, "the injected failure was reached");
    VR_ASSERT(r != ABT_SUCCESS, NAME ": an allocation failure is reported as an error");
    VR_ASSERT(vr_live == live_ok, NAME ": nothing stays allocated after the failed call");
    VR_ASSERT(h == NULLH || h == (T)SENT, NAME ": output handle is the NULL handle or untouched (never dangling)");
#ifdef MULTI
    if (k == nreq - 1 && nreq > 1) VR_WITNESS("the LAST allocation of the call failed: earlier ones had to be rolled back");
#endif
    if (k == 0) VR_WITNESS("the first allocation failed");
    /* retry without failure, then release everything */
    vr_fail_at = -1; vr_nalloc = 0;
    r = CREATE(&h);
    VR_ASSERT(r == ABT_SUCCESS && h != NULLH, NAME ": the same call succeeds when retried without the failure");
    r = FREE(&h);  VR_ASSERT(r == ABT_SUCCESS && h == NULLH, "free resets the handle");
    r = FREE(&h0); VR_ASSERT(r == ABT_SUCCESS, "free of the first object");
    VR_ASSERT(vr_live == 0, "all objects released: ledger back to zero");
    return 0;
}
