/* C18: work-unit creation through thread.c / task.c when an allocation OR the target pool's unit creation fails.
 * Caller = external thread (descriptor, stack and key table come from malloc, so the ledger sees everything).  The target pool
 * is built-in or user-defined (symbolic); a user-defined pool may refuse to create a unit and the unit map may fail (symbolic);
 * the k-th allocation may fail (k symbolic).
 * WHICH 0  ABT_thread_create with default attributes or an attribute carrying a migration callback (key table + record)
 * WHICH 1  ABTI_ythread_create_sched = what ABT_pool_add_sched runs for the caller's scheduler (automatic or not, symbolic)
 * WHICH 2  ABT_task_create
 * WHICH 3  ABT_thread_create_many (2 ULTs, with a handle array): every entry of the array is afterwards either untouched, the NULL
 *          handle, or the handle of a ULT that really was created and pushed -- never garbage
 * Memory: typed arena (one block per request kind), ledger, k-th request fails.
 * Failure: error code, nothing left allocated, NULL handle, no unit left in the user pool, nothing pushed, and objects passed
 * in by the caller (the scheduler!) neither freed nor modified.  Success: exactly one push, of the new unit. */
#include <stdlib.h>
#include <errno.h>
void vr_free(void *p);
#define free(p) vr_free(p)
#include "abti.h"
#include "vr.h"
#include "stub_io.h"
static int vr_nalloc, vr_fail_at = -1, vr_live, vr_failed;
/* typed arena (cbmc's untyped heap objects make the key-table code intractable): one static object per request kind, sized
 * exactly as requested (ABTU_malloc rounds to the 64-byte cache line); every block may be handed out once */
struct ystk { char stk[64]; ABTI_ythread y; };                                                    /* stack + descriptor */
struct tblk { ABTI_ktable_mem_header h; ABTI_ktable kt; char pad0[8]; ABTI_ktelem e0; char pad1[28]; uint32_t extflag; };   /* key table, 1 slot */
struct eblk { ABTI_ktable_mem_header h; ABTI_ktelem e[3]; char pad1[12]; uint32_t extflag; };   /* further elements */
struct mblk { ABTI_thread_mig_data m; char pad[40]; };
static struct ystk A_YS, A_YS2; static ABTI_ythread A_DESC; static struct tblk A_TB; static struct eblk A_EB; static struct mblk A_MB;
static int used_ys, used_ys2, used_desc, used_tb, used_eb, used_mb;
int posix_memalign(void **p, size_t al, size_t sz)
{
    /* the block for a request is chosen from the request size and the number of earlier requests of that size only -- both
     * are the same whether or not an earlier request failed -- so that cbmc sees concrete objects on every path */
    void *q = NULL; int *u = 0;
    if (sz == sizeof(struct ystk)) { static int nys; int k = nys++; if (k == 0) { q = &A_YS; u = &used_ys; } else if (k == 1) { q = &A_YS2; u = &used_ys2; } }
    else if (sz == 64) { q = &A_MB; u = &used_mb; }
    else if (sz == 128) {
        static int n128; int k = n128++;
#if WHICH == 2
        if (k == 0) { q = &A_DESC; u = &used_desc; }
#else
        if (k == 0) { q = &A_TB; u = &used_tb; } else if (k == 1) { q = &A_EB; u = &used_eb; }
#endif
    }
    __CPROVER_assert(q != NULL && *u == 0, "arena: request of an expected size, each kind at most once");
    __CPROVER_assume(q != NULL);
    if (vr_nalloc++ == vr_fail_at) { vr_failed = 1; return ENOMEM; }
    *u = 1; vr_live++; *p = q; return 0;
}
void vr_free(void *p)
{
    if (!p) return;
    int *u = p == (void *)&A_YS ? &used_ys : p == (void *)&A_YS2 ? &used_ys2 : p == (void *)&A_DESC ? &used_desc : p == (void *)&A_TB ? &used_tb : p == (void *)&A_EB ? &used_eb : p == (void *)&A_MB ? &used_mb : 0;
    __CPROVER_assert(u != 0, "free() of a pointer that was allocated (block start)");
    if (u) { __CPROVER_assert(*u == 1, "memory block released exactly once"); *u = 2; vr_live--; }
}
void *memset(void *d, int c, size_t n) { __CPROVER_assert(c == 0, "memset(0) on a fresh (zero) arena block"); return d; }
#include "thread.c"
#include "task.c"
#include "key.c"
ABTI_global *gp_ABTI_global; ABTD_XSTREAM_LOCAL ABTI_local *lp_ABTI_local;
static ABTI_global G;
static ABTI_pool POOL; static ABTI_sched SCHED;
static int units_made, units_freed, unit_fail, map_fail, unmapped, pushes, sched_freed;
static char UNITOBJ[8];
static ABT_unit up_create_unit(ABT_pool p, ABT_thread t) { if (nondet_bool()) { unit_fail = 1; return ABT_UNIT_NULL; } units_made++; return (ABT_unit)UNITOBJ; }
static void up_free_unit(ABT_pool p, ABT_unit u) { units_freed++; }
static void any_push(ABT_pool p, ABT_unit u, ABT_pool_context c) { pushes++; }
int ABTI_unit_map_thread(ABTI_global *g, ABT_unit u, ABTI_thread *t) { if (nondet_bool()) { map_fail = 1; return ABT_ERR_MEM; } return ABT_SUCCESS; }
void ABTI_unit_unmap_thread(ABTI_global *g, ABT_unit u) { unmapped++; }
void ABTI_sched_free(ABTI_global *g, ABTI_local *l, ABTI_sched *s, ABT_bool force) { sched_freed++; }
static void body(void *a) {}
static void mig_cb(ABT_thread t, void *a) {}

int main(void)
{
    gp_ABTI_global = &G; G.thread_stacksize = 64; G.sched_stacksize = 64; G.stack_guard_kind = ABTI_STACK_GUARD_NONE; G.sys_page_size = 4096; G.key_table_size = 1;
    int user_pool = nondet_bool();
    POOL.is_builtin = user_pool ? ABT_FALSE : ABT_TRUE; POOL.required_def.p_push = any_push;
    if (user_pool) { POOL.required_def.p_create_unit = up_create_unit; POOL.required_def.p_free_unit = up_free_unit; }
    vr_fail_at = nondet_int(); __CPROVER_assume(vr_fail_at >= -1 && vr_fail_at <= 3);
    int r;
#if WHICH == 0
#define NULLH ABT_THREAD_NULL
    ABTI_thread_attr attr;
#ifdef WITH_ATTR
    int with_attr = WITH_ATTR;
#else
    int with_attr = nondet_bool();
#endif
    if (with_attr) { ABTI_thread_attr_init(&attr, NULL, 64, ABT_TRUE); attr.f_cb = mig_cb; attr.p_cb_arg = &G; }
    ABT_thread h = (ABT_thread)&G;
    r = ABT_thread_create((ABT_pool)&POOL, body, &G, with_attr ? (ABT_thread_attr)&attr : ABT_THREAD_ATTR_NULL, nondet_bool() ? &h : NULL);
#elif WHICH == 1
    SCHED.used = ABTI_SCHED_IN_POOL; SCHED.automatic = nondet_bool(); SCHED.p_ythread = NULL; SCHED.run = (ABT_sched_run_fn)body;
    ABT_bool automatic0 = SCHED.automatic;
    r = ABTI_ythread_create_sched(&G, NULL, &POOL, &SCHED);
#elif WHICH == 4
#define NULLH ABT_THREAD_NULL
    /* several ULTs cannot share one user-supplied stack: ABT_thread_create_many must refuse such an attribute, with or without a handle array */
    static char USTK[256]; ABTI_thread_attr uattr; ABTI_thread_attr_init(&uattr, USTK, 256, ABT_TRUE);
    ABT_pool pools[2] = { (ABT_pool)&POOL, (ABT_pool)&POOL }; void (*fns[2])(void *) = { body, body }; ABT_thread hs[2] = { (ABT_thread)&G, (ABT_thread)&G }; ABT_thread h = (ABT_thread)&G;
    int named = nondet_bool();
    r = ABT_thread_create_many(2, pools, fns, NULL, (ABT_thread_attr)&uattr, named ? hs : NULL);
    VR_ASSERT(r == ABT_ERR_INV_THREAD_ATTR && pushes == 0 && vr_live == 0, "ABT_thread_create_many refuses an attribute with a user-supplied stack (the ULTs would all run on the same stack) and creates nothing");
    VR_ASSERT(hs[0] == (ABT_thread)&G && hs[1] == (ABT_thread)&G, "the handle array is untouched");
    if (named) VR_WITNESS("refused with a handle array"); else VR_WITNESS("refused without a handle array");
    return 0;
#elif WHICH == 3
#define NULLH ABT_THREAD_NULL
    ABT_pool pools[2] = { (ABT_pool)&POOL, (ABT_pool)&POOL }; void (*fns[2])(void *) = { body, body }; ABT_thread hs[2] = { (ABT_thread)&G, (ABT_thread)&G }; ABT_thread h = (ABT_thread)&G;
    r = ABT_thread_create_many(2, pools, fns, NULL, ABT_THREAD_ATTR_NULL, hs);
    for (int i = 0; i < 2; i++) VR_ASSERT(hs[i] == (ABT_thread)&G || hs[i] == ABT_THREAD_NULL || hs[i] == (ABT_thread)&A_YS.y || hs[i] == (ABT_thread)&A_YS2.y, "every entry of the handle array is untouched, NULL, or the handle of a ULT that was really created -- never garbage");
    if (r != ABT_SUCCESS) VR_ASSERT(hs[1] != (ABT_thread)&A_YS2.y || used_ys2 == 1, "no handle to a released ULT");
    if (r != ABT_SUCCESS && pushes == 1) { VR_WITNESS("the second creation failed after the first ULT had been created and pushed"); return 0; }   /* (the first ULT stays: documented TODO of the routine) */
    if (r == ABT_SUCCESS) { VR_ASSERT(pushes == 2 && hs[0] == (ABT_thread)&A_YS.y && hs[1] == (ABT_thread)&A_YS2.y, "both ULTs created, pushed once each, handles returned in order"); VR_WITNESS("creation succeeded"); return 0; }
#else
#define NULLH ABT_TASK_NULL
    ABT_task h = (ABT_task)&G;
    r = ABT_task_create((ABT_pool)&POOL, body, &G, nondet_bool() ? &h : NULL);
#endif
#if WHICH != 3 && WHICH != 4
    if (r != ABT_SUCCESS) {
        VR_ASSERT(vr_failed || unit_fail || map_fail, "creation fails only if an allocation or the pool's unit creation failed");
        VR_ASSERT(vr_live == 0, "a failed creation leaves no block allocated");
        VR_ASSERT(units_made == units_freed && pushes == 0, "a failed creation leaves no unit in the pool and pushes nothing");
#if WHICH == 1
        VR_ASSERT(sched_freed == 0, "the caller's scheduler is NOT freed by a failed creation (the caller still owns the handle)");
        VR_ASSERT(SCHED.p_ythread == NULL && SCHED.automatic == automatic0 && SCHED.used == ABTI_SCHED_IN_POOL, "the caller's scheduler is left as it was");
        if (unit_fail && SCHED.automatic) VR_WITNESS("user-defined pool refused the unit of an automatic scheduler");
#else
        VR_ASSERT(h == NULLH || h == (void *)&G, "no dangling handle: NULL handle or untouched");
        if (map_fail) VR_WITNESS("unit map registration failed after everything else had succeeded");
#endif
        if (vr_failed) VR_WITNESS("an allocation failed");
#if WHICH == 1 || (WHICH == 0 && (!defined(WITH_ATTR) || WITH_ATTR))
        if (vr_failed && vr_fail_at >= 1) VR_WITNESS("a later allocation failed");
#endif
    } else {
        VR_ASSERT(!vr_failed && !unit_fail && !map_fail, "success only without failures");
        VR_ASSERT(pushes == 1 && vr_live >= 1, "the new unit is pushed exactly once");
        if (user_pool) VR_ASSERT(units_made == 1 && units_freed == 0, "exactly one unit was created in the user-defined pool");
#if WHICH == 1
        VR_ASSERT(SCHED.p_ythread != NULL && sched_freed == 0, "the scheduler got its ULT");
#endif
        VR_WITNESS("creation succeeded");
    }
#endif
    return 0;
}
