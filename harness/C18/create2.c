/* C18: a failed allocation makes the scheduler / pool / config constructors fail cleanly (sched.c, pool.c, the predefined
 * schedulers' and pools' init functions, sched_config.c, pool_config.c, pool_user_def.c, util/hashtable.c).
 * Same scheme as create.c: a failure-free call is made first and its allocation requests are counted in this very run; then the
 * k-th request (k symbolic) of an identical second call fails.  Checked: error code, nothing left allocated (ledger), output
 * handle = the documented NULL handle or untouched, the objects the caller passed in (a user-given pool in the pool array) are
 * exactly as before -- in particular their reference count (ABTI_pool.num_scheds) --, and the same call succeeds when retried;
 * finally everything is freed and the ledger is back at zero.
 * The library TUs are compiled separately (static names clash) with -Dfree=vr_free so that ABTU_free keeps the ledger. */
#include <stdlib.h>
#include <errno.h>
#include "abti.h"
#undef free
void free(void *);
#undef memcpy
void *memcpy(void *, const void *, size_t);
/* pool.c copies the pools' function tables with memcpy; cbmc's byte-wise memcpy loses the constant function pointers and every
 * later indirect call then fans out to all address-taken functions of its type (no verdict).  Typed struct copies keep them. */
_Static_assert(sizeof(ABTI_pool_required_def) != sizeof(ABTI_pool_optional_def) && sizeof(ABTI_pool_required_def) != sizeof(ABTI_pool_deprecated_def) && sizeof(ABTI_pool_required_def) != sizeof(ABTI_pool_old_def)
               && sizeof(ABTI_pool_optional_def) != sizeof(ABTI_pool_deprecated_def) && sizeof(ABTI_pool_optional_def) != sizeof(ABTI_pool_old_def) && sizeof(ABTI_pool_deprecated_def) != sizeof(ABTI_pool_old_def), "table sizes identify the table type");
void *vr_memcpy(void *d, const void *s, size_t n)
{
    if (n == sizeof(ABTI_pool_required_def)) { *(ABTI_pool_required_def *)d = *(const ABTI_pool_required_def *)s; return d; }
    if (n == sizeof(ABTI_pool_optional_def)) { *(ABTI_pool_optional_def *)d = *(const ABTI_pool_optional_def *)s; return d; }
    if (n == sizeof(ABTI_pool_deprecated_def)) { *(ABTI_pool_deprecated_def *)d = *(const ABTI_pool_deprecated_def *)s; return d; }
    if (n == sizeof(ABTI_pool_old_def)) { *(ABTI_pool_old_def *)d = *(const ABTI_pool_old_def *)s; return d; }
    return memcpy(d, s, n);
}
#undef memset
void *memset(void *, int, size_t);
void *vr_memset(void *d, int c, size_t n)         /* same for the tables pool_create clears with memset */
{
    if (c == 0 && n == sizeof(ABTI_pool_optional_def)) { static const ABTI_pool_optional_def z; *(ABTI_pool_optional_def *)d = z; return d; }
    if (c == 0 && n == sizeof(ABTI_pool_deprecated_def)) { static const ABTI_pool_deprecated_def z; *(ABTI_pool_deprecated_def *)d = z; return d; }
    if (c == 0 && n == sizeof(ABTI_pool_old_def)) { static const ABTI_pool_old_def z; *(ABTI_pool_old_def *)d = z; return d; }
    return memset(d, c, n);
}
#include "vr.h"
#include "stub_io.h"
static int vr_nalloc, vr_fail_at = -1, vr_live, vr_failed;
/* Objects that carry function tables (pool, scheduler, user pool definition) are allocated as objects of their own type (cbmc
 * types a heap object by the sizeof expression at the malloc call): the function pointers stored in them then stay constants and
 * the later indirect calls (p_init, p_free, init, free, p_is_empty) resolve to one function each.  A byte-array object loses them
 * and every indirect call fans out to all address-taken functions of its type, recursively (no verdict in 1100 s).
 * The request size is what ABTU_malloc passes: rounded up to the cache line.  128 bytes is requested both for ABTI_sched (112) and
 * for fifo_wait's data_t (120): such a block is a scheduler followed by padding. */
#define RUP(n) (((n) + 63u) & ~(size_t)63u)
typedef struct { ABTI_sched s; char pad[RUP(sizeof(ABTI_sched)) - sizeof(ABTI_sched)]; } blk_sched;
_Static_assert(RUP(sizeof(ABTI_pool)) != RUP(sizeof(ABTI_sched)) && RUP(sizeof(ABTI_pool)) != RUP(sizeof(ABTI_pool_user_def)) && RUP(sizeof(ABTI_sched)) != RUP(sizeof(ABTI_pool_user_def)), "request sizes identify the table-carrying types");
int posix_memalign(void **p, size_t al, size_t sz)
{
    /* (the block is allocated and stored through p on BOTH outcomes and released again on the failing one: the pointer the caller
     * holds then does not depend on the symbolic failure position -- a value merged from "uninitialised" and "the block" loses
     * the constants again; a caller that used the pointer after a failure would touch a freed object, which cbmc reports) */
    void *q;
    if (sz == RUP(sizeof(ABTI_pool))) q = malloc(sizeof(ABTI_pool));
    else if (sz == RUP(sizeof(ABTI_sched))) q = malloc(sizeof(blk_sched));
    else if (sz == RUP(sizeof(ABTI_pool_user_def))) q = malloc(sizeof(ABTI_pool_user_def));
    else q = malloc(sz);
    __CPROVER_assume(q != NULL);
    *p = q;
    if (vr_nalloc++ == vr_fail_at) { vr_failed = 1; free(q); return ENOMEM; }
    vr_live++; return 0;
}
void vr_free(void *p) { if (p) { vr_live--; free(p); } }
int pthread_mutex_init(pthread_mutex_t *m, const pthread_mutexattr_t *a) { return 0; }
int pthread_cond_init(pthread_cond_t *c, const pthread_condattr_t *a) { return 0; }
int pthread_mutex_destroy(pthread_mutex_t *m) { return 0; }
int pthread_cond_destroy(pthread_cond_t *c) { return 0; }
ABTI_global *gp_ABTI_global;
ABTD_XSTREAM_LOCAL ABTI_local *lp_ABTI_local;
static ABTI_global G;
#define SENT ((void *)&G)     /* "untouched" sentinel for output handles */
void ABTI_ythread_free_main_sched(ABTI_global *g, ABTI_local *l, ABTI_ythread *y) { __CPROVER_assert(0, "unreachable: no scheduler ULT exists"); }
void ABTI_thread_free(ABTI_global *g, ABTI_local *l, ABTI_thread *t) { __CPROVER_assert(0, "unreachable: no scheduler ULT exists"); }

static ABT_pool given;            /* a pool the caller owns and passes in */
static int given_refs(void) { return given == ABT_POOL_NULL ? 0 : (int)ABTI_pool_get_ptr(given)->num_scheds.val; }
/* user scheduler definition (ABT_sched_create): init allocates like a real one would (through the library's allocator) */
static void *u_data;
static int u_init(ABT_sched s, ABT_sched_config c) { void *p; int r = ABTU_malloc(24, &p); if (r != ABT_SUCCESS) return r; u_data = p; return ABT_SUCCESS; }
static void u_run(ABT_sched s) {}
static int u_free(ABT_sched s) { ABTU_free(u_data); u_data = NULL; return ABT_SUCCESS; }
static ABT_sched_def UDEF = { ABT_SCHED_TYPE_ULT, u_init, u_run, u_free, NULL };   /* positional: -Dfree=vr_free renames the member 'free' in every TU alike */
static ABT_unit pu_create_unit(ABT_pool p, ABT_thread t) { return (ABT_unit)t; }
static void pu_free_unit(ABT_pool p, ABT_unit u) {}
static ABT_bool pu_is_empty(ABT_pool p) { return ABT_TRUE; }
static ABT_thread pu_pop(ABT_pool p, ABT_pool_context c) { return ABT_THREAD_NULL; }
static void pu_push(ABT_pool p, ABT_unit u, ABT_pool_context c) {}
static void *pu_data;
static int pu_init(ABT_pool p, ABT_pool_config c) { void *q; int r = ABTU_malloc(40, &q); if (r != ABT_SUCCESS) return r; pu_data = q; return ABT_SUCCESS; }
static void pu_free(ABT_pool p) { ABTU_free(pu_data); pu_data = NULL; }

#if WHICH == 0                                   /* ABT_pool_create_basic, every kind / access / automatic flag */
#define T ABT_pool
#define NULLH ABT_POOL_NULL
static ABT_bool a_auto;
/* (kind and access are concrete per obligation: they select the pool's function table; a solver-chosen table makes cbmc explore
 * every address-taken function of each pointer type at every later indirect call -- no verdict in 700 s) */
#define SETUP() do { a_auto = nondet_bool() ? ABT_TRUE : ABT_FALSE; } while (0)
#define CREATE(h) ABT_pool_create_basic(KIND, ACC, a_auto, h)
#define FREE(h) ABT_pool_free(h)
#define NAME "ABT_pool_create_basic"
#define MAXREQ 3
#elif WHICH == 1                                 /* ABT_sched_create_basic without a pool array: the scheduler creates its pools */
#define T ABT_sched
#define NULLH ABT_SCHED_NULL
#define SETUP() do { } while (0)
#define CREATE(h) ABT_sched_create_basic(PREDEF, 0, NULL, ABT_SCHED_CONFIG_NULL, h)
#define FREE(h) ABT_sched_free(h)
#define NAME "ABT_sched_create_basic(no pools)"
#define MAXREQ 12
#elif WHICH == 2                                 /* ABT_sched_create_basic with { user-given pool, ABT_POOL_NULL } */
#define T ABT_sched
#define NULLH ABT_SCHED_NULL
static ABT_pool a_pools[2]; static int a_order;
#define SETUP() do { int r_ = ABT_pool_create_basic(ABT_POOL_FIFO, ABT_POOL_ACCESS_MPMC, ABT_FALSE, &given); VR_ASSUME(r_ == ABT_SUCCESS); a_order = nondet_bool(); } while (0)
#define CREATE(h) (a_pools[a_order] = given, a_pools[1 - a_order] = ABT_POOL_NULL, ABT_sched_create_basic(PREDEF, 2, a_pools, ABT_SCHED_CONFIG_NULL, h))
#define FREE(h) ABT_sched_free(h)
#define NAME "ABT_sched_create_basic(given pool + NULL)"
#define MAXREQ 10
#define HAS_GIVEN
#elif WHICH == 3                                 /* ABT_sched_create with a user definition whose init allocates */
#define T ABT_sched
#define NULLH ABT_SCHED_NULL
static ABT_pool a_pools[2]; static int a_order;
#define SETUP() do { int r_ = ABT_pool_create_basic(ABT_POOL_FIFO, ABT_POOL_ACCESS_MPMC, ABT_FALSE, &given); VR_ASSUME(r_ == ABT_SUCCESS); a_order = nondet_bool(); } while (0)
#define CREATE(h) (a_pools[a_order] = given, a_pools[1 - a_order] = ABT_POOL_NULL, ABT_sched_create(&UDEF, 2, a_pools, ABT_SCHED_CONFIG_NULL, h))
#define FREE(h) ABT_sched_free(h)
#define NAME "ABT_sched_create(user definition)"
#define MAXREQ 8
#define HAS_GIVEN
#define ONE_AT_A_TIME                            /* u_data is a single slot */
#elif WHICH == 4                                 /* ABT_pool_user_def_create + ABT_pool_create(user definition whose p_init allocates) */
#define T ABT_pool
#define NULLH ABT_POOL_NULL
static ABT_pool_user_def a_def;
#define SETUP() do { int r_ = ABT_pool_user_def_create(pu_create_unit, pu_free_unit, pu_is_empty, pu_pop, pu_push, &a_def); VR_ASSUME(r_ == ABT_SUCCESS); \
                     r_ = ABT_pool_user_def_set_init(a_def, pu_init); VR_ASSUME(r_ == ABT_SUCCESS); r_ = ABT_pool_user_def_set_free(a_def, pu_free); VR_ASSUME(r_ == ABT_SUCCESS); } while (0)
#define CREATE(h) ABT_pool_create(a_def, ABT_POOL_CONFIG_NULL, h)
#define FREE(h) ABT_pool_free(h)
#define NAME "ABT_pool_create(user definition)"
#define MAXREQ 4
#define ONE_AT_A_TIME
#define TEARDOWN() do { ABT_pool_user_def_free(&a_def); } while (0)
#elif WHICH == 5                                 /* ABT_pool_user_def_create */
#define T ABT_pool_user_def
#define NULLH ABT_POOL_USER_DEF_NULL
#define SETUP() do { } while (0)
#define CREATE(h) ABT_pool_user_def_create(pu_create_unit, pu_free_unit, pu_is_empty, pu_pop, pu_push, h)
#define FREE(h) ABT_pool_user_def_free(h)
#define NAME "ABT_pool_user_def_create"
#define MAXREQ 2
#elif WHICH == 6                                 /* ABT_pool_config_create */
#define T ABT_pool_config
#define NULLH ABT_POOL_CONFIG_NULL
#define SETUP() do { } while (0)
#define CREATE(h) ABT_pool_config_create(h)
#define FREE(h) ABT_pool_config_free(h)
#define NAME "ABT_pool_config_create"
#define MAXREQ 3
#elif WHICH == 7                                 /* ABT_sched_config_create with two variables (variadic) */
#define T ABT_sched_config
#define NULLH ABT_SCHED_CONFIG_NULL
#define SETUP() do { } while (0)
#define CREATE(h) ABT_sched_config_create(h, ABT_sched_config_automatic, 1, ABT_sched_basic_freq, 7, ABT_sched_config_var_end)
#define FREE(h) ABT_sched_config_free(h)
#define NAME "ABT_sched_config_create"
#define MAXREQ 5
#endif
#ifndef TEARDOWN
#define TEARDOWN() do { } while (0)
#endif

int main(void)
{
    gp_ABTI_global = &G; G.thread_stacksize = 16384; G.key_table_size = 4; G.sched_event_freq = 50; G.sched_sleep_nsec = 100;
    given = ABT_POOL_NULL;
    SETUP();
    int live0 = vr_live, refs0 = given_refs();
    int r;
    /* how many allocation requests does a failure-free call make?  (measured in this very run) */
    vr_nalloc = 0;
    T h0 = (T)SENT; r = CREATE(&h0);
    VR_ASSERT(r == ABT_SUCCESS && h0 != NULLH && h0 != (T)SENT, NAME ": succeeds when nothing fails");
    int nreq = vr_nalloc;
    VR_ASSERT(nreq >= 1 && nreq <= MAXREQ, "allocation requests of one call are within the expected range");
#ifdef ONE_AT_A_TIME
    r = FREE(&h0); VR_ASSERT(r == ABT_SUCCESS && h0 == NULLH, "free resets the handle");
    VR_ASSERT(vr_live == live0 && given_refs() == refs0, "create + free leaves nothing behind and gives the caller's pool back");
#endif
    int live_ok = vr_live, refs_ok = given_refs();
    /* now the k-th request of a further, identical call fails, for EVERY k (enumerated by an unrolled loop, not chosen by the
     * solver: with a symbolic k every pointer returned by an allocation becomes "the block, or garbage if it failed" after the
     * allocator returns, the function tables read through it stop being constants, and the indirect calls fan out -- no verdict) */
    for (int k = 0; k < nreq; k++) {
        vr_nalloc = 0; vr_fail_at = k; vr_failed = 0;
        T h = (T)SENT; r = CREATE(&h);
        VR_ASSERT(vr_failed, "the injected failure was reached");
        VR_ASSERT(r != ABT_SUCCESS, NAME ": an allocation failure is reported as an error");
        VR_ASSERT(vr_live == live_ok, NAME ": nothing stays allocated after the failed call");
        VR_ASSERT(h == NULLH || h == (T)SENT, NAME ": output handle is the NULL handle or untouched (never dangling)");
#ifdef HAS_GIVEN
        VR_ASSERT(given_refs() == refs_ok, NAME ": the pool the caller passed in keeps its reference count (the failed scheduler does not hold it)");
        { ABT_bool e = ABT_FALSE; int rr = ABT_pool_is_empty(given, &e); VR_ASSERT(rr == ABT_SUCCESS && e == ABT_TRUE, "the caller's pool is still usable"); }
#endif
#if WHICH != 5
        if (k == nreq - 1 && nreq > 1) VR_WITNESS("the LAST allocation of the call failed: earlier ones had to be rolled back");
#endif
        if (k == 0) VR_WITNESS("the first allocation failed");
    }
    T h = (T)SENT;
    /* retry without failure, then release everything */
    vr_fail_at = -1; vr_nalloc = 0;
    r = CREATE(&h);
    VR_ASSERT(r == ABT_SUCCESS && h != NULLH && h != (T)SENT, NAME ": the same call succeeds when retried without the failure");
    r = FREE(&h);  VR_ASSERT(r == ABT_SUCCESS && h == NULLH, "free resets the handle");
#ifndef ONE_AT_A_TIME
    r = FREE(&h0); VR_ASSERT(r == ABT_SUCCESS, "free of the first object");
#endif
#ifdef HAS_GIVEN
    VR_ASSERT(given_refs() == refs0, "freeing the schedulers gives the caller's pool back (reference count as at the start)");
    r = ABT_pool_free(&given); VR_ASSERT(r == ABT_SUCCESS, "the caller's pool can be freed");
#endif
    TEARDOWN();
    VR_ASSERT(vr_live == 0, "all objects released: ledger back to zero");
    return 0;
}
