/* C18 / C12: ABT_thread_revive / ABT_task_revive into a user-defined pool whose unit creation or unit-map registration fails
 * (symbolic).  A failed revive must leave the terminated unit exactly as it was (still TERMINATED, old function/argument, in no
 * pool) so that it can be revived again or freed; a successful one makes it READY with the new function and pushes it once. */
#include "abti.h"
#include "vr.h"
#include "stub_io.h"
#include "thread.c"
#include "task.c"
ABTI_global *gp_ABTI_global; ABTD_XSTREAM_LOCAL ABTI_local *lp_ABTI_local;
static ABTI_global G; static ABTI_pool BP, UP; static ABTI_ythread U;
static int units_made, units_freed, pushes, unit_fail, map_fail; static char UNITOBJ[8];
static ABT_unit up_create_unit(ABT_pool p, ABT_thread t) { if (nondet_bool()) { unit_fail = 1; return ABT_UNIT_NULL; } units_made++; return (ABT_unit)UNITOBJ; }
static void up_free_unit(ABT_pool p, ABT_unit u) { units_freed++; }
static void any_push(ABT_pool p, ABT_unit u, ABT_pool_context c) { pushes++; }
int ABTI_unit_map_thread(ABTI_global *g, ABT_unit u, ABTI_thread *t) { if (nondet_bool()) { map_fail = 1; return ABT_ERR_MEM; } return ABT_SUCCESS; }
void ABTI_unit_unmap_thread(ABTI_global *g, ABT_unit u) {}
static void f_old(void *a) {} static void f_new(void *a) {}
int main(void)
{
    gp_ABTI_global = &G; G.thread_stacksize = 64;
    BP.is_builtin = ABT_TRUE; BP.required_def.p_push = any_push;
    UP.is_builtin = ABT_FALSE; UP.required_def.p_push = any_push; UP.required_def.p_create_unit = up_create_unit; UP.required_def.p_free_unit = up_free_unit;
    int is_task = nondet_bool();
    U.thread.type = ABTI_THREAD_TYPE_THREAD | ABTI_THREAD_TYPE_NAMED | (is_task ? 0 : ABTI_THREAD_TYPE_YIELDABLE);
    U.thread.p_pool = &BP; ABTI_unit_init_builtin(&U.thread); U.thread.state.val = ABT_THREAD_STATE_TERMINATED;
    U.thread.f_thread = f_old; U.thread.p_arg = &BP; U.thread.request.val = 0; U.thread.p_last_xstream = NULL;
    static char stk[64]; U.ctx.p_stacktop = stk + 64; U.ctx.stacksize = 64; U.ctx.ctx.dummy = NULL; U.ctx.p_link.val.val = NULL;
    ABT_unit unit0 = U.thread.unit;
    int to_user = nondet_bool();
    ABT_pool target = to_user ? (ABT_pool)&UP : (ABT_pool)&BP;
    ABT_thread h = (ABT_thread)&U; ABT_task ht = (ABT_task)&U;
    int r = is_task ? ABT_task_revive(target, f_new, &UP, &ht) : ABT_thread_revive(target, f_new, &UP, &h);
    if (r == ABT_SUCCESS) {
        VR_ASSERT(U.thread.state.val == ABT_THREAD_STATE_READY && U.thread.f_thread == f_new && U.thread.p_arg == (void *)&UP && pushes == 1, "a revived unit is READY with the new function and argument and pushed exactly once");
        VR_ASSERT(U.thread.p_pool == (to_user ? &UP : &BP), "it is associated with the target pool");
        if (to_user) VR_WITNESS("revived into a user-defined pool");
    } else {
        VR_ASSERT(to_user && (unit_fail || map_fail), "revive fails only when the user-defined pool cannot create/register a unit");
        VR_ASSERT(U.thread.state.val == ABT_THREAD_STATE_TERMINATED && U.thread.f_thread == f_old && U.thread.p_arg == (void *)&BP, "a failed revive leaves the unit TERMINATED with its old function and argument (it can be revived again or freed)");
        VR_ASSERT(pushes == 0 && U.thread.p_pool == &BP && U.thread.unit == unit0 && units_made == units_freed, "a failed revive pushes nothing, keeps the association and leaks no unit");
        VR_WITNESS("revive into a failing user-defined pool rejected");
    }
    return 0;
}
