/* C11-O2: directed switches.  Caller C = ULT0 running on ES0; target T = ULT1, in the same or another pool, already started
 * or never started, READY in its pool (yield_to / suspend_to / exit_to) or BLOCKED (resume_* variants).  The real API
 * function runs up to the context switch; the switch model runs the REAL post-switch callback and then checks the state
 * in which T starts running on ES0:  T is RUNNING on this stream, taken out of its pool exactly once, parent inherited;
 * C is READY in its pool once / BLOCKED and counted / TERMINATED, as documented; blocked counters balanced.
 * PRIM: 0 ABT_self_yield_to  1 ABT_thread_yield_to  2 ABT_self_suspend_to  3 ABT_self_resume_yield_to
 *       4 ABT_self_resume_suspend_to  5 ABT_self_exit_to  6 ABT_self_resume_exit_to */
#define VR_OWN_NORETURN_MODEL
#include "vr_hooks.h"
#include "abti.h"
#include "world.h"
#include "stub_io.h"
static int same_pool, started, stolen, switched, nb0_0, nb1_0;
#define T_BLOCKED (PRIM == 3 || PRIM == 4 || PRIM == 6)
static void env_step(void)
{
#if PRIM == 1
    /* another stream that shares T's pool pops T at an unlucky moment (between the readiness check and the remove) */
    if (!stolen && sp_in[1] && nondet_bool()) { stolen = 1; sp_in[1] = 0; ULT1.thread.is_in_pool.val = 0; }
#endif
}
static void vr_stuck(const char *w) {}
static void post_switch_checks(int exiting)
{
    switched = 1;
#if PRIM == 1
    VR_ASSERT(!stolen, "ABT_thread_yield_to never switches into a target that another stream popped meanwhile (it would run on two streams at once)");
#endif
    VR_ASSERT(ES0.p_thread == &ULT1.thread, "the named ULT runs next on the calling stream");
    VR_ASSERT(ULT1.thread.state.val == ABT_THREAD_STATE_RUNNING && ULT1.thread.p_last_xstream == &ES0, "the target is RUNNING on this stream");
    VR_ASSERT(!sp_in[1], "the target is in no pool while it runs (it cannot be scheduled a second time)");
    VR_ASSERT(ULT1.thread.p_parent == &SCHED0.thread, "the target inherits the caller's parent (the scheduler)");
    ABTI_pool *tp = same_pool ? &PL0 : &PL1;
#if PRIM == 0 || PRIM == 1
    VR_ASSERT(ULT0.thread.state.val == ABT_THREAD_STATE_READY && sp_in[0], "yield_to: the caller is READY in its pool");
    VR_ASSERT(PL0.num_blocked.val == nb0_0 && PL1.num_blocked.val == nb1_0, "yield_to: blocked counters unchanged in the end");
#elif PRIM == 2
    VR_ASSERT(ULT0.thread.state.val == ABT_THREAD_STATE_BLOCKED && !sp_in[0], "suspend_to: the caller is BLOCKED and in no pool");
    VR_ASSERT(PL0.num_blocked.val == nb0_0 + 1 && (same_pool || PL1.num_blocked.val == nb1_0), "suspend_to: the caller is counted as blocked in its pool");
#elif PRIM == 3
    VR_ASSERT(ULT0.thread.state.val == ABT_THREAD_STATE_READY && sp_in[0], "resume_yield_to: the caller is READY in its pool");
    VR_ASSERT(tp->num_blocked.val == (same_pool ? nb0_0 : nb1_0) - 1, "resume_yield_to: the resumed target no longer counts as blocked");
#elif PRIM == 4
    VR_ASSERT(ULT0.thread.state.val == ABT_THREAD_STATE_BLOCKED && !sp_in[0], "resume_suspend_to: the caller is BLOCKED and in no pool");
    VR_ASSERT(same_pool ? PL0.num_blocked.val == nb0_0 : (PL0.num_blocked.val == nb0_0 + 1 && PL1.num_blocked.val == nb1_0 - 1), "resume_suspend_to: the blocked count moves from the target's pool to the caller's");
#elif PRIM == 5
    VR_ASSERT(exiting && ULT0.thread.state.val == ABT_THREAD_STATE_TERMINATED && !sp_in[0], "exit_to: the caller is TERMINATED");
    VR_ASSERT(PL0.num_blocked.val == nb0_0 && PL1.num_blocked.val == nb1_0, "exit_to: counters unchanged");
#elif PRIM == 6
    VR_ASSERT(exiting && ULT0.thread.state.val == ABT_THREAD_STATE_TERMINATED && !sp_in[0], "resume_exit_to: the caller is TERMINATED");
    VR_ASSERT(tp->num_blocked.val == (same_pool ? nb0_0 : nb1_0) - 1, "resume_exit_to: the resumed target no longer counts as blocked");
#endif
    VR_ASSERT(vr_saved[0] || exiting, "the caller's context was saved before its callback republished it");
#if !T_BLOCKED
    if (!same_pool && !started) VR_WITNESS("switched to a never-started target of another pool");
#else
    if (!same_pool) VR_WITNESS("resumed a blocked target of another pool");
#endif
    if (same_pool && started) VR_WITNESS("switched to a started target of the same pool");
}
static void vr_after_switch(int k) { post_switch_checks(0); __CPROVER_assume(0); }
/* never-started target */
void init_and_switch_with_call_fcontext(void *cb_arg, void (*f_cb)(void *), fcontext_t *p_new, void (*f_thread)(fcontext_t *), void *top, fcontext_t *p_old)
{
    __CPROVER_assert(!started && p_new == &ULT1.ctx.ctx && top == ULT1.ctx.p_stacktop && p_old == &ULT0.ctx.ctx, "start of the never-started target on its own stack");
    p_old->dummy = (void *)1; vr_saved[0] = 1; vr_run_cb(f_cb, cb_arg); post_switch_checks(0); __CPROVER_assume(0);
}
void jump_with_call_fcontext(void *a, void (*f)(void *), fcontext_t *n) { __CPROVER_assert(started && n == &ULT1.ctx.ctx, "jump to the started target"); vr_run_cb(f, a); post_switch_checks(1); __CPROVER_assume(0); }
void init_and_jump_with_call_fcontext(void *c, void (*fc)(void *), fcontext_t *n, void (*f)(fcontext_t *), void *s) { __CPROVER_assert(!started && n == &ULT1.ctx.ctx && s == ULT1.ctx.p_stacktop, "start-and-jump to the never-started target"); vr_run_cb(fc, c); post_switch_checks(1); __CPROVER_assume(0); }
void switch_fcontext(fcontext_t *n, fcontext_t *o) { __CPROVER_assert(0, "plain switch not expected"); __CPROVER_assume(0); }
void jump_fcontext(fcontext_t *p) { __CPROVER_assert(0, "plain jump not expected"); __CPROVER_assume(0); }
void init_and_switch_fcontext(fcontext_t *a, void (*f)(fcontext_t *), void *s, fcontext_t *o) { __CPROVER_assert(0, "not expected"); __CPROVER_assume(0); }
void init_and_jump_fcontext(fcontext_t *a, void (*f)(fcontext_t *), void *s) { __CPROVER_assert(0, "not expected"); __CPROVER_assume(0); }
static char TSTACK[64];

int main(void)
{
    world_init();
    same_pool = nondet_bool(); started = nondet_bool();
    /* T lives on ES0's side: it was created there but never ran / ran there before */
    ULT1.thread.p_pool = same_pool ? &PL0 : &PL1; ULT1.thread.p_last_xstream = &ES0; ULT1.thread.p_parent = NULL;
    ULT1.ctx.ctx.dummy = started ? (void *)1 : NULL; ULT1.ctx.p_stacktop = TSTACK + 64; ULT1.ctx.stacksize = 64;
    ES1.p_thread = &SCHED1.thread;
#if T_BLOCKED
    ULT1.thread.state.val = ABT_THREAD_STATE_BLOCKED; (same_pool ? &PL0 : &PL1)->num_blocked.val = 1; VR_ASSUME(started);
#else
    ULT1.thread.state.val = ABT_THREAD_STATE_READY; sp_in[1] = 1; ULT1.thread.is_in_pool.val = 1;
#if PRIM != 1
    /* the ABT_self_* primitives take a unit that is in no pool (the caller popped/created it) */
    sp_in[1] = 0; ULT1.thread.is_in_pool.val = 0;
#endif
#endif
    nb0_0 = PL0.num_blocked.val; nb1_0 = PL1.num_blocked.val;
    vr_in_init = 0; as_agent(0);
    int r;
#if PRIM == 0
    r = ABT_self_yield_to((ABT_thread)&ULT1);
#elif PRIM == 1
    r = ABT_thread_yield_to((ABT_thread)&ULT1);
#elif PRIM == 2
    r = ABT_self_suspend_to((ABT_thread)&ULT1);
#elif PRIM == 3
    r = ABT_self_resume_yield_to((ABT_thread)&ULT1);
#elif PRIM == 4
    r = ABT_self_resume_suspend_to((ABT_thread)&ULT1);
#elif PRIM == 5
    r = ABT_self_exit_to((ABT_thread)&ULT1);
#elif PRIM == 6
    r = ABT_self_resume_exit_to((ABT_thread)&ULT1);
#endif
    /* only reachable when no switch happened */
    VR_ASSERT(!switched, "control returns to the caller only if no switch took place");
#if PRIM == 1
    VR_ASSERT(stolen, "ABT_thread_yield_to returns without switching only if the target was taken away meanwhile");
    VR_ASSERT(PL0.num_blocked.val == nb0_0 && PL1.num_blocked.val == nb1_0, "a failed yield_to leaves the blocked counters as they were (the pre-increment is undone)");
    VR_ASSERT(ULT0.thread.state.val == ABT_THREAD_STATE_RUNNING && ES0.p_thread == &ULT0.thread, "the caller simply continues");
    VR_WITNESS("target popped by another stream between the readiness check and the remove");
#else
    VR_ASSERT(0, "the directed switch primitive must switch");
#endif
    return 0;
}
