/* C20-O4: the environment layer (arch/abtd_env.c): every numeric setting ends up inside its documented range and rounding,
 * whatever the parser returns.  The real ABTD_env_init runs with: getenv = solver-chosen presence per call (the string's
 * content only matters to the boolean/keyword settings: 16 symbolic bytes), and the ABTU_ato* family = nondeterministic result
 * (error, or ANY value of the type: what the parser does with a given string is the atoi_* obligations' subject).
 * Required of the resulting ABTI_global: ranges, powers of two, multiples of the cache line / bucket count, never zero sizes,
 * no arithmetic overflow or division by zero on the way (cbmc's checks). */
#include "abti.h"
#include "vr.h"
#include "stub_io.h"
#include <unistd.h>
static char ENVSTR[17];
static int env_present;
char *getenv(const char *name) { if (nondet_bool()) return NULL; env_present++; return ENVSTR; }
long sysconf(int n) { long v = nondet_long(); __CPROVER_assume(v >= 1 && v <= 4096); return v; }
int getpagesize(void) { return 4096; }
int ABTU_atoi(const char *s, int *v, ABT_bool *o) { if (nondet_bool()) return ABT_ERR_INV_ARG; *v = nondet_int(); return ABT_SUCCESS; }
int ABTU_atoui32(const char *s, uint32_t *v, ABT_bool *o) { if (nondet_bool()) return ABT_ERR_INV_ARG; *v = nondet_uint(); return ABT_SUCCESS; }
int ABTU_atoui64(const char *s, uint64_t *v, ABT_bool *o) { if (nondet_bool()) return ABT_ERR_INV_ARG; *v = nondet_size_t(); return ABT_SUCCESS; }
int ABTU_atosz(const char *s, size_t *v, ABT_bool *o) { if (nondet_bool()) return ABT_ERR_INV_ARG; *v = nondet_size_t(); return ABT_SUCCESS; }
static int lc(int c) { return (c >= 'A' && c <= 'Z') ? c + 32 : c; }
int strcasecmp(const char *a, const char *b) { for (int i = 0; i < 16; i++) { int x = lc((unsigned char)a[i]), y = lc((unsigned char)b[i]); if (x != y) return x - y; if (!x) return 0; } return 0; }
void ABTD_affinity_init(ABTI_global *g, const char *s) {}
int ABTI_mem_check_lp_alloc(ABTI_global *g, int lp) { return lp; }
void ABTD_time_init(void) {}
#include "arch/abtd_env.c"
ABTI_global *gp_ABTI_global;
static ABTI_global G;
static int pow2(size_t v) { return v != 0 && (v & (v - 1)) == 0; }
int main(void)
{
    for (int i = 0; i < 16; i++) ENVSTR[i] = nondet_char();
    ENVSTR[16] = 0;
    ABTD_env_init(&G);
    VR_ASSERT(G.max_xstreams >= 1 && G.max_xstreams <= INT_MAX / 2, "max_xstreams in [1, INT_MAX/2]");
    VR_ASSERT(pow2(G.key_table_size) && G.key_table_size <= ((uint32_t)1 << 31), "key table size is a power of two");
    VR_ASSERT(pow2(G.sys_page_size) && G.sys_page_size >= 64, "system page size is a power of two >= 64");
    VR_ASSERT(G.thread_stacksize >= 512 && G.thread_stacksize % ABT_CONFIG_STATIC_CACHELINE_SIZE == 0, "default ULT stack size >= 512 and a multiple of the cache line (never wrapped to 0)");
    VR_ASSERT(G.sched_stacksize >= 512 && G.sched_stacksize % ABT_CONFIG_STATIC_CACHELINE_SIZE == 0, "scheduler stack size >= 512 and a multiple of the cache line");
    VR_ASSERT(G.sched_event_freq >= 1 && G.sched_event_freq <= UINT32_MAX / 2, "event frequency >= 1");
    VR_ASSERT(G.sched_sleep_nsec <= UINT64_MAX / 2, "sleep time clamped");
    VR_ASSERT(G.mutex_max_handovers >= 1 && G.mutex_max_wakeups >= 1, "mutex limits >= 1");
    VR_ASSERT(G.huge_page_size >= 4096, "huge page size >= 4096");
    VR_ASSERT(pow2(G.mem_page_size) && G.mem_page_size >= 4096, "memory-pool page size is a power of two >= 4096");
    VR_ASSERT(G.mem_sp_size % ABT_CONFIG_STATIC_CACHELINE_SIZE == 0 && G.mem_sp_size != 0, "stack page size is a non-zero multiple of the cache line");
    VR_ASSERT(G.mem_sp_size >= (G.thread_stacksize <= (SIZE_MAX / 2) / 4 ? G.thread_stacksize * 4 : SIZE_MAX / 2), "a stack page holds at least four default stacks (documented minimum), whatever the variable was set to -- parsable or not");
    VR_ASSERT(G.mem_max_stacks >= ABT_MEM_POOL_MAX_LOCAL_BUCKETS && G.mem_max_stacks % ABT_MEM_POOL_MAX_LOCAL_BUCKETS == 0, "max cached stacks: non-zero multiple of the local bucket count (a bucket holds >= 1 block)");
    VR_ASSERT(G.mem_max_descs >= ABT_MEM_POOL_MAX_LOCAL_BUCKETS && G.mem_max_descs % ABT_MEM_POOL_MAX_LOCAL_BUCKETS == 0, "max cached descriptors: non-zero multiple of the local bucket count");
    VR_ASSERT(G.stack_guard_kind == ABTI_STACK_GUARD_NONE || G.stack_guard_kind == ABTI_STACK_GUARD_MPROTECT || G.stack_guard_kind == ABTI_STACK_GUARD_MPROTECT_STRICT, "stack guard kind is one of the three modes");
    if (G.thread_stacksize > ((size_t)1 << 40)) VR_WITNESS("huge stack size accepted (clamped to SIZE_MAX/2)");
    if (G.stack_guard_kind == ABTI_STACK_GUARD_MPROTECT) VR_WITNESS("keyword setting recognised case-insensitively");
    if (G.key_table_size == ((uint32_t)1 << 31)) VR_WITNESS("key table size rounded up to 2^31");
    return 0;
}
