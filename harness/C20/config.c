/* C20-O1b: ABT_sched_config_* / ABT_pool_config_* as typed maps: every sequence of NOPS set/get/delete with NKEYS
 * symbolic int keys and symbolic types/values, against a ghost map.  -DPOOLCFG selects the pool config object. */
#include "abti.h"
#include "vr.h"
#include "util/hashtable.c"
#ifdef POOLCFG
#include "pool/pool_config.c"
#define CFG ABT_pool_config
#define CFG_SET ABT_pool_config_set
#define CFG_GET ABT_pool_config_get
#define CFG_FREE ABT_pool_config_free
#define T_INT ABT_POOL_CONFIG_INT
#define T_DBL ABT_POOL_CONFIG_DOUBLE
#define T_PTR ABT_POOL_CONFIG_PTR
#define CTYPE ABT_pool_config_type
#else
#include "sched/sched_config.c"
#define CFG ABT_sched_config
#define CFG_SET ABT_sched_config_set
#define CFG_GET ABT_sched_config_get
#define CFG_FREE ABT_sched_config_free
#define T_INT ABT_SCHED_CONFIG_INT
#define T_DBL ABT_SCHED_CONFIG_DOUBLE
#define T_PTR ABT_SCHED_CONFIG_PTR
#define CTYPE ABT_sched_config_type
#endif
ABTI_global *gp_ABTI_global;
#ifndef NOPS
#define NOPS 4
#endif
#define NKEYS 3

int main(void)
{
    int key[NKEYS]; int present[NKEYS]; int type[NKEYS]; uint64_t val[NKEYS];
    for (int i = 0; i < NKEYS; i++) { key[i] = nondet_int(); present[i] = 0; val[i] = 0; type[i] = 0; }
    VR_ASSUME(key[0] != key[1] && key[0] != key[2] && key[1] != key[2]);
    CFG cfg;
    int r;
#ifdef POOLCFG
    r = ABT_pool_config_create(&cfg);
#else
    r = ABT_sched_config_create(&cfg, ABT_sched_config_var_end);
#endif
    VR_ASSERT(r == ABT_SUCCESS, "create succeeds");
    int sawdel = 0;
    for (int n = 0; n < NOPS; n++) {
        int op = nondet_int(), k = nondet_int();
        VR_ASSUME(op >= 0 && op < 3 && k >= 0 && k < NKEYS);
        if (op == 0) {
            int t = nondet_int(); VR_ASSUME(t == T_INT || t == T_DBL || t == T_PTR);
            union { int i; double d; void *p; uint64_t u; } v; v.u = nondet_u64();
            if (t == T_INT) v.u &= 0xffffffffu;
            r = CFG_SET(cfg, key[k], (CTYPE)t, &v);
            VR_ASSERT(r == ABT_SUCCESS, "set succeeds");
            present[k] = 1; type[k] = t; val[k] = v.u;
        } else if (op == 1) {
            union { int i; double d; void *p; uint64_t u; } v; v.u = 0; CTYPE t = (CTYPE)77;
            r = CFG_GET(cfg, key[k], &t, &v);
            VR_ASSERT((r == ABT_SUCCESS) == (present[k] != 0), "get: success iff key present");
            if (present[k]) { VR_ASSERT((int)t == type[k], "get: type as set"); VR_ASSERT(v.u == val[k], "get: value as last set (bitwise)"); }
            else VR_ASSERT((int)t == 77 && v.u == 0, "get of absent key leaves outputs untouched");
        } else {
            r = CFG_SET(cfg, key[k], (CTYPE)T_INT, NULL);   /* NULL value deletes */
            VR_ASSERT(r == ABT_SUCCESS, "delete succeeds");
            if (present[k]) sawdel = 1;
            present[k] = 0;
        }
    }
    for (int i = 0; i < NKEYS; i++) {
        uint64_t v = 0; CTYPE t;
        r = CFG_GET(cfg, key[i], &t, &v);
        VR_ASSERT((r == ABT_SUCCESS) == (present[i] != 0), "final: present iff set and not deleted");
        if (present[i]) VR_ASSERT(v == val[i] && (int)t == type[i], "final: value/type preserved");
    }
    if (sawdel && present[0] && present[1] && ((key[0] - key[1]) % 8 == 0) && key[0] < 0) VR_WITNESS("colliding negative keys with a delete");
    r = CFG_FREE(&cfg);
    VR_ASSERT(r == ABT_SUCCESS, "free succeeds");
#ifdef POOLCFG
    VR_ASSERT(cfg == ABT_POOL_CONFIG_NULL, "handle reset");
#else
    VR_ASSERT(cfg == ABT_SCHED_CONFIG_NULL, "handle reset");
#endif
    return 0;
}
