/* C20-O1b: ABT_sched_config_* / ABT_pool_config_* as typed maps over the real hashtable (8 buckets): NOPS symbolic
 * operations (typed set / get / delete) on three keys that collide in one bucket (5, -3, 13: concrete so that cbmc can
 * fold the bucket index; arbitrary keys are covered by the hashtable obligations), symbolic types and values.
 * -DPOOLCFG selects the pool config object.  Memory model as in hashtable.c (typed arena). */
#include "abti.h"
#include "vr.h"
#include "stub_io.h"
struct elt { ABTU_hashtable_element e; uint64_t d0, d1; char pad[64 - sizeof(ABTU_hashtable_element) - 16]; };
struct tab { ABTU_hashtable h; struct elt el[8]; char pad[64 - sizeof(ABTU_hashtable)]; };
struct cfg { void *p_table; char pad[64 - sizeof(void *)]; };
static struct tab TAB; static struct cfg CFGO; static int tab_used, cfg_used;
static struct elt E0, E1; static int e_used[2], e_freed[2];
static struct elt *const EP[2] = { &E0, &E1 };
int posix_memalign(void **p, size_t al, size_t sz)
{
    if (sz == sizeof(struct cfg) && !cfg_used) { cfg_used = 1; *p = &CFGO; return 0; }
    if (sz == sizeof(struct tab) && !tab_used) { tab_used = 1; *p = &TAB; return 0; }
    __CPROVER_assert(sz == sizeof(struct elt), "allocation size is one 64-byte element");
    for (int i = 0; i < 2; i++) if (!e_used[i]) { e_used[i] = 1; *p = EP[i]; return 0; }
    __CPROVER_assert(0, "arena exhausted"); __CPROVER_assume(0); return 12;
}
void free(void *p)
{
    if (p == &TAB) { __CPROVER_assert(tab_used == 1, "table freed once"); tab_used = 2; return; }
    if (p == &CFGO) { __CPROVER_assert(cfg_used == 1, "config freed once"); cfg_used = 2; return; }
    for (int i = 0; i < 2; i++) if (p == EP[i]) { __CPROVER_assert(e_used[i] && !e_freed[i], "chain element freed exactly once"); e_freed[i] = 1; e_used[i] = 0; e_freed[i] = 0; *EP[i] = (struct elt){ 0 }; return; }
    __CPROVER_assert(0, "free() of a pointer that was not allocated");
}
void *memset(void *d, int c, size_t n) { __CPROVER_assert(c == 0, "memset(0) only"); return d; }
void *memcpy(void *d, const void *s, size_t n)
{
    if (n == 16) { ((uint64_t *)d)[0] = ((const uint64_t *)s)[0]; ((uint64_t *)d)[1] = ((const uint64_t *)s)[1]; }
    else if (n == sizeof(struct elt)) *(struct elt *)d = *(const struct elt *)s;
    else __CPROVER_assert(0, "unexpected memcpy size");
    return d;
}
#include "util/hashtable.c"
#ifdef POOLCFG
#include "pool/pool_config.c"
#define CFG ABT_pool_config
#define CFG_SET ABT_pool_config_set
#define CFG_GET ABT_pool_config_get
#define CFG_FREE ABT_pool_config_free
#define T_INT ABT_POOL_CONFIG_INT
#define T_DBL ABT_POOL_CONFIG_DOUBLE
#define T_PTR ABT_POOL_CONFIG_PTR
#define CTYPE ABT_pool_config_type
#define CNULL ABT_POOL_CONFIG_NULL
#else
#include "sched/sched_config.c"
#define CFG ABT_sched_config
#define CFG_SET ABT_sched_config_set
#define CFG_GET ABT_sched_config_get
#define CFG_FREE ABT_sched_config_free
#define T_INT ABT_SCHED_CONFIG_INT
#define T_DBL ABT_SCHED_CONFIG_DOUBLE
#define T_PTR ABT_SCHED_CONFIG_PTR
#define CTYPE ABT_sched_config_type
#define CNULL ABT_SCHED_CONFIG_NULL
#endif
ABTI_global *gp_ABTI_global;
#ifndef NOPS
#define NOPS 4
#endif
static const int KEY[3] = { 5, -3, 13 };
typedef union { int i; double d; void *p; uint64_t u; } val_t;

int main(void)
{
    int present[3] = { 0, 0, 0 }, type[3] = { 0, 0, 0 }; uint64_t val[3] = { 0, 0, 0 };
    CFG cfg; int r;
#ifdef POOLCFG
    r = ABT_pool_config_create(&cfg);
#else
    r = ABT_sched_config_create(&cfg, ABT_sched_config_var_end);
#endif
    VR_ASSERT(r == ABT_SUCCESS, "create succeeds");
    int dels = 0, sets = 0;
    for (int n = 0; n < NOPS; n++) {
        int op = nondet_int(), k = nondet_int();
        VR_ASSUME(op >= 0 && op < 3 && k >= 0 && k < 3);
        if (op == 0) {
            int t = nondet_int(); VR_ASSUME(t == T_INT || t == T_DBL || t == T_PTR);
            val_t v; v.u = nondet_u64(); if (t == T_INT) v.u &= 0xffffffffu;
            r = (k == 0) ? CFG_SET(cfg, 5, (CTYPE)t, &v) : (k == 1) ? CFG_SET(cfg, -3, (CTYPE)t, &v) : CFG_SET(cfg, 13, (CTYPE)t, &v);
            VR_ASSERT(r == ABT_SUCCESS, "typed set succeeds");
            present[k] = 1; type[k] = t; val[k] = v.u; sets++;
        } else if (op == 1) {
            val_t v; v.u = 0; CTYPE t = (CTYPE)77;
            r = (k == 0) ? CFG_GET(cfg, 5, &t, &v) : (k == 1) ? CFG_GET(cfg, -3, &t, &v) : CFG_GET(cfg, 13, &t, &v);
            VR_ASSERT((r == ABT_SUCCESS) == (present[k] != 0), "get: success iff key present");
            if (present[k]) { VR_ASSERT((int)t == type[k], "get: type as set"); VR_ASSERT(v.u == val[k], "get: value as last set (bitwise)"); }
            else VR_ASSERT((int)t == 77 && v.u == 0, "get of an absent key leaves the outputs untouched");
        } else {
            r = (k == 0) ? CFG_SET(cfg, 5, (CTYPE)T_INT, NULL) : (k == 1) ? CFG_SET(cfg, -3, (CTYPE)T_INT, NULL) : CFG_SET(cfg, 13, (CTYPE)T_INT, NULL);
            VR_ASSERT(r == ABT_SUCCESS, "delete (set with NULL) succeeds");
            if (present[k]) dels++;
            present[k] = 0;
        }
    }
    val_t v; CTYPE t;
    v.u = 0; r = CFG_GET(cfg, 5, &t, &v);  VR_ASSERT((r == ABT_SUCCESS) == (present[0] != 0), "final: key 5 present iff set and not deleted");  if (present[0]) VR_ASSERT(v.u == val[0] && (int)t == type[0], "final: value/type of key 5");
    v.u = 0; r = CFG_GET(cfg, -3, &t, &v); VR_ASSERT((r == ABT_SUCCESS) == (present[1] != 0), "final: key -3 present iff set and not deleted"); if (present[1]) VR_ASSERT(v.u == val[1] && (int)t == type[1], "final: value/type of key -3");
    v.u = 0; r = CFG_GET(cfg, 13, &t, &v); VR_ASSERT((r == ABT_SUCCESS) == (present[2] != 0), "final: key 13 present iff set and not deleted"); if (present[2]) VR_ASSERT(v.u == val[2] && (int)t == type[2], "final: value/type of key 13");
    r = CFG_GET(cfg, 21, &t, &v); VR_ASSERT(r != ABT_SUCCESS, "a colliding key never set is absent");
    if (dels >= 1 && sets >= 3 && present[0] + present[1] + present[2] == 2) VR_WITNESS("3 colliding keys set, one deleted");
    r = CFG_FREE(&cfg);
    VR_ASSERT(r == ABT_SUCCESS && cfg == CNULL, "free succeeds and resets the handle");
    VR_ASSERT(tab_used == 2 && cfg_used == 2 && !e_used[0] && !e_used[1], "everything released");
    return 0;
}
