/* C20-O3a: lexical kernels of the affinity parser (consume_int / consume_pint / consume_symbol) on a fully symbolic
 * NUL-terminated string of <= LEN bytes starting at a symbolic index: never read past the terminating NUL, no signed
 * overflow, value == reference when it fits in int; a field that does not fit in int must be rejected (not wrap). */
#include "abti.h"
#include "vr.h"
#include "arch/abtd_affinity_parser.c"
#ifndef LEN
#define LEN 12
#endif
static int isws(char c) { return c == ' ' || c == '\t' || c == '\r' || c == '\n'; }
/* reference: ws* then (sign)* then digit+; signs may not be followed by ws ("+ 1" is illegal per the unit tests in the source) */
static int ref_int(const char *s, uint32_t *idx, long long *val)
{
    uint32_t i = *idx; int neg = 0, nd = 0; long long v = 0; int big = 0;
    while (isws(s[i])) i++;
    while (s[i] == '+' || s[i] == '-') { if (s[i] == '-') neg = !neg; i++; }
    while (s[i] >= '0' && s[i] <= '9') { if (v < 100000000000LL) v = v * 10 + (s[i] - '0'); i++; nd++; }
    if (!nd) return 0;
    *idx = i; *val = neg ? -v : v;
    return 1;
}
int main(void)
{
#ifdef NDIG
    /* shape mode: 2 symbolic prefix chars from {ws,+,-}, NDIG symbolic digits at fixed positions, a symbolic non-digit, NUL */
#undef LEN
#define LEN (2 + NDIG + 1)
    char s[LEN + 1];
    for (int i = 0; i < 2; i++) { char c = nondet_char(); VR_ASSUME(isws(c) || c == '+' || c == '-'); s[i] = c; }
    for (int i = 2; i < 2 + NDIG; i++) { char c = nondet_char(); VR_ASSUME(c >= '0' && c <= '9'); s[i] = c; }
    { char c = nondet_char(); VR_ASSUME(!(c >= '0' && c <= '9')); s[2 + NDIG] = c; }
    s[LEN] = 0;
    uint32_t start = 0;
#else
    char s[LEN + 1];
    for (int i = 0; i < LEN; i++) s[i] = nondet_char();
    s[LEN] = 0;
    uint32_t start = nondet_u32(); VR_ASSUME(start <= LEN);
#endif
    /* start must not be beyond an earlier NUL */
    for (int i = 0; i < LEN; i++) if ((uint32_t)i < start) VR_ASSUME(s[i] != 0);
    uint32_t ri = start; long long rv = 0;
    int rok = ref_int(s, &ri, &rv);
#if WHICH == 0
    uint32_t idx = start; int val = 777;
    int ok = consume_int(s, &idx, &val);
    if (rok && rv >= -2147483647LL && rv <= 2147483647LL) {
        VR_ASSERT(ok == 1, "consume_int accepts an integer that fits in int");
        VR_ASSERT(val == (int)rv, "consume_int value");
        VR_ASSERT(idx == ri, "consume_int consumed exactly the token");
        if (rv < 0) VR_WITNESS("negative int");
    } else if (!rok) {
        VR_ASSERT(ok == 0, "consume_int rejects a non-integer");
        VR_ASSERT(idx == start && val == 777, "consume_int leaves outputs untouched on failure");
        VR_WITNESS("rejected");
    } else if (rv == -2147483647LL - 1) {
        /* INT_MIN itself: either exact or rejected (its magnitude does not fit before negation) */
        VR_ASSERT(ok == 0 || val == -2147483647 - 1, "consume_int on INT_MIN: exact or rejected");
    } else {
        /* does not fit in int: must not be silently wrapped into some other CPU id */
        VR_ASSERT(ok == 0, "consume_int rejects an integer field that does not fit in int");
#ifdef EXPECT_BIG
        VR_WITNESS("too-big field");
#endif
    }
#elif WHICH == 1
    uint32_t idx = start; int val = 777;
    int ok = consume_pint(s, &idx, &val);
    if (rok && rv > 0 && rv <= 2147483647LL) { VR_ASSERT(ok == 1 && val == (int)rv && idx == ri, "consume_pint accepts positive ints"); VR_WITNESS("pint ok"); }
    else { VR_ASSERT(ok == 0 && idx == start && val == 777, "consume_pint rejects everything else, outputs untouched"); if (rok && rv <= 0) VR_WITNESS("non-positive rejected"); }
#else
    char sym = nondet_char(); VR_ASSUME(sym == '{' || sym == '}' || sym == ':' || sym == ',' || sym == 0);
    uint32_t idx = start;
    int ok = consume_symbol(s, &idx, sym);
    uint32_t j = start; while (isws(s[j])) j++;
    if (s[j] == sym) { VR_ASSERT(ok == 1 && idx == j + 1, "consume_symbol accepts ws* symbol"); if (j > start && sym == 0) VR_WITNESS("NUL after ws"); }
    else { VR_ASSERT(ok == 0 && idx == start, "consume_symbol rejects, index untouched"); VR_WITNESS("symbol rejected"); }
#endif
    return 0;
}
