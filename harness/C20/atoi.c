/* C20-O2: ABTU_atoi / atoui32 / atoui64 / atosz on a fully symbolic string of <= LEN bytes.
 * Reference: mathematical value of the longest  ws* sign* digit+  prefix (computed in 128 bits, which cannot
 * overflow for LEN <= 38 digits), saturated at the type's limits; overflow flag iff saturated; error iff no digit. */
#include "abti.h"
#include "vr.h"
#include "util/atoi.c"

#ifdef EXPECT_SAT
#define SATWIT(m) VR_WITNESS(m)
#else
#define SATWIT(m) VR_ASSERT(1, m)
#endif
#ifndef LEN
#define LEN 22
#endif
typedef unsigned __int128 u128;

static int ref_parse(const char *s, int *neg, u128 *val)
{
    int i = 0, n = 0, nd = 0;
    u128 v = 0;
    while (s[i] == ' ' || s[i] == '\t' || s[i] == '\n' || s[i] == '\r') i++;
    while (s[i] == '+' || s[i] == '-') { if (s[i] == '-') n = !n; i++; }
    while (s[i] >= '0' && s[i] <= '9') { v = v * 10 + (u128)(s[i] - '0'); i++; nd++; }
    *neg = n; *val = v;
    return nd > 0;
}

int main(void)
{
#ifdef NDIG
    /* shape mode: 3 symbolic prefix chars from {ws,+,-}, NDIG symbolic digits at fixed positions, one symbolic
     * non-digit terminator, NUL.  (A fully symbolic layout of this length is beyond every installed back end.) */
    char s[3 + NDIG + 2];
    for (int i = 0; i < 3; i++) { char c = nondet_char(); VR_ASSUME(c == ' ' || c == '\t' || c == '\n' || c == '\r' || c == '+' || c == '-'); s[i] = c; }
    for (int i = 3; i < 3 + NDIG; i++) { char c = nondet_char(); VR_ASSUME(c >= '0' && c <= '9'); s[i] = c; }
    { char c = nondet_char(); VR_ASSUME(!(c >= '0' && c <= '9')); s[3 + NDIG] = c; }
    s[3 + NDIG + 1] = 0;
#else
    char s[LEN + 1];
    for (int i = 0; i < LEN; i++) s[i] = nondet_char();
    s[LEN] = 0;
#endif
    int neg; u128 v;
    int ok = ref_parse(s, &neg, &v);
    ABT_bool ovf = 2;
    if (ok && neg) VR_WITNESS("a negative number is parsed");
    if (!ok) VR_WITNESS("an unparsable string is rejected");
#if WHICH == 0
    int out = 12345; int r = ABTU_atoi(s, &out, &ovf);
    if (!ok) { VR_ASSERT(r != ABT_SUCCESS, "atoi: no digit => error"); VR_ASSERT(out == 12345, "atoi: output untouched on error"); }
    else {
        VR_ASSERT(r == ABT_SUCCESS, "atoi: digit => success");
        if (!neg) { int sat = v > (u128)INT_MAX; VR_ASSERT(out == (sat ? INT_MAX : (int)v), "atoi: value (saturating at INT_MAX)"); VR_ASSERT(ovf == (sat ? ABT_TRUE : ABT_FALSE), "atoi: overflow flag iff saturated"); if (sat) SATWIT("atoi positive saturation"); }
        else { int sat = v > (u128)2147483648u; VR_ASSERT(out == (sat ? INT_MIN : (int)(-(int64_t)(uint64_t)v)), "atoi: negative value (saturating at INT_MIN)"); VR_ASSERT(ovf == (sat ? ABT_TRUE : ABT_FALSE), "atoi: underflow flag iff saturated"); if (sat) SATWIT("atoi negative saturation"); }
    }
#elif WHICH == 1
    uint32_t out = 12345; int r = ABTU_atoui32(s, &out, &ovf);
    if (!ok) { VR_ASSERT(r != ABT_SUCCESS, "atoui32: no digit => error"); VR_ASSERT(out == 12345, "atoui32: output untouched on error"); }
    else {
        VR_ASSERT(r == ABT_SUCCESS, "atoui32: digit => success");
        if (!neg) { int sat = v > (u128)UINT32_MAX; VR_ASSERT(out == (sat ? UINT32_MAX : (uint32_t)v), "atoui32: value (saturating)"); VR_ASSERT(ovf == (sat ? ABT_TRUE : ABT_FALSE), "atoui32: overflow flag iff saturated"); if (sat) SATWIT("atoui32 saturation"); }
        else { VR_ASSERT(out == 0, "atoui32: negative clamps to 0"); VR_ASSERT(ovf == (v != 0 ? ABT_TRUE : ABT_FALSE), "atoui32: underflow flag iff nonzero negative"); if (v != 0) VR_WITNESS("atoui32 negative"); }
    }
#elif WHICH == 2
    uint64_t out = 12345; int r = ABTU_atoui64(s, &out, &ovf);
    if (!ok) { VR_ASSERT(r != ABT_SUCCESS, "atoui64: no digit => error"); VR_ASSERT(out == 12345, "atoui64: output untouched on error"); }
    else {
        VR_ASSERT(r == ABT_SUCCESS, "atoui64: digit => success");
        if (!neg) { int sat = v > (u128)UINT64_MAX; VR_ASSERT(out == (sat ? UINT64_MAX : (uint64_t)v), "atoui64: value (saturating)"); VR_ASSERT(ovf == (sat ? ABT_TRUE : ABT_FALSE), "atoui64: overflow flag iff saturated"); if (sat) SATWIT("atoui64 saturation"); }
        else { VR_ASSERT(out == 0, "atoui64: negative clamps to 0"); VR_ASSERT(ovf == (v != 0 ? ABT_TRUE : ABT_FALSE), "atoui64: underflow flag iff nonzero negative"); if (v != 0) VR_WITNESS("atoui64 negative"); }
    }
#else
    size_t out = 12345; int r = ABTU_atosz(s, &out, &ovf);
    if (!ok) { VR_ASSERT(r != ABT_SUCCESS, "atosz: no digit => error"); VR_ASSERT(out == 12345, "atosz: output untouched on error"); }
    else {
        VR_ASSERT(r == ABT_SUCCESS, "atosz: digit => success");
        if (!neg) { int sat = v > (u128)SIZE_MAX; VR_ASSERT(out == (sat ? SIZE_MAX : (size_t)v), "atosz: value (saturating)"); VR_ASSERT(ovf == (sat ? ABT_TRUE : ABT_FALSE), "atosz: overflow flag iff saturated"); if (sat) SATWIT("atosz saturation"); }
        else { VR_ASSERT(out == 0, "atosz: negative clamps to 0"); VR_ASSERT(ovf == (v != 0 ? ABT_TRUE : ABT_FALSE), "atosz: underflow flag iff nonzero negative"); if (v != 0) VR_WITNESS("atosz negative"); }
    }
#endif
    return 0;
}
