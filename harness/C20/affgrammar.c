/* C20-O3b: the affinity grammar above the lexer (arch/abtd_affinity_parser.c), whole ABTD_affinity_list_create.
 * MODE 0  template "{A:2:C}:2:E" with A = sign + NDA symbolic digits, C and E = sign + ND symbolic digits: accepted, and expands to the documented lists
 *         list[k] = { A + C*t + E*k : t = 0,1 }, k = 0,1 -- when every id fits in int; a string whose expansion does not fit in
 *         int must be REJECTED (not wrapped into some other CPU id; no signed overflow on the way).
 * MODE 1  EVERY string of LEN arbitrary bytes: no out-of-bounds access, and whether accepted or rejected every block allocated
 *         during parsing is released exactly once by the error path / ABTD_affinity_list_free (ledger); on rejection the
 *         output pointer is untouched. */
#include <stdlib.h>
void vr_free(void *p);
#define free(p) vr_free(p)
#include "abti.h"
#include "vr.h"
static int vr_live;
#if MODE == 6
/* allocation-list step: generic 64-byte blocks */
struct gblk { void *p_prev, *p_next; int payload[12]; };
static struct gblk GB0, GB1, GB2, GB3, GB4; static int gused[5], gn;
static struct gblk *gb(int k) { return k == 0 ? &GB0 : k == 1 ? &GB1 : k == 2 ? &GB2 : k == 3 ? &GB3 : &GB4; }
int posix_memalign(void **p, size_t al, size_t sz) { int k = gn++; __CPROVER_assert(k < 5 && sz == 64, "arena: at most five 64-byte requests"); __CPROVER_assume(k < 5); gused[k] = 1; vr_live++; *p = gb(k); return 0; }
void vr_free(void *p) { if (!p) return; int f = 0; for (int k = 0; k < 5; k++) if (p == (void *)gb(k)) { __CPROVER_assert(gused[k] == 1, "block released exactly once"); gused[k] = 2; f = 1; } __CPROVER_assert(f, "free() of an allocated block start"); vr_live--; }
void *memset(void *d, int c, size_t n) { __CPROVER_assert(c == 0, "memset(0) on a fresh arena block"); return d; }
#elif MODE == 0 || MODE == 3 || MODE == 4 || MODE == 5
/* typed arena: for the fixed templates the parser's allocation requests come in a fixed order, so the n-th request gets a static
 * block of the right type (cbmc's untyped heap + realloc/memcpy make even "{1:2:3}" intractable: 23 GB, no verdict).  Every
 * request is <= 64 bytes (ABTU_malloc rounds to the cache line). */
struct ahdr { void *p_prev, *p_next; };
struct b_idl { struct ahdr h; ABTD_affinity_id_list l; char pad[32]; };
struct b_ids { struct ahdr h; int ids[2]; char pad[40]; };
struct b_lst { struct ahdr h; ABTD_affinity_list l; char pad[24]; };
struct b_ptr { struct ahdr h; ABTD_affinity_id_list *p[2]; char pad[32]; };
static struct b_lst B_LST; static struct b_idl B_IDL0, B_IDL1; static struct b_ids B_IDS0, B_IDS1; static struct b_ptr B_PTR;
static int nreq, used[6];
#if MODE == 5
static void *blk(int k) { return k == 0 ? (void *)&B_LST : k == 1 ? (void *)&B_IDL0 : k == 2 ? (void *)&B_IDS0 : k == 3 ? (void *)&B_IDS1 : k == 4 ? (void *)&B_PTR : (void *)&B_IDL1; }
#else
static void *blk(int k) { return k == 0 ? (void *)&B_LST : k == 1 ? (void *)&B_IDL0 : k == 2 ? (void *)&B_IDS0 : k == 3 ? (void *)&B_PTR : k == 4 ? (void *)&B_IDL1 : (void *)&B_IDS1; }
#endif
int posix_memalign(void **p, size_t al, size_t sz)
{
#if MODE == 3
    int k = nreq++ + 1;          /* parse_es_id_list alone: id-list, ids */
#else
    int k = nreq++;              /* list, id-list, ids, pointer array, id-list, ids */
#endif
    __CPROVER_assert(sz == 64 && k < 6 && sizeof(struct b_idl) == 64 && sizeof(struct b_ids) == 64 && sizeof(struct b_lst) == 64 && sizeof(struct b_ptr) == 64, "arena: the expected sequence of 64-byte requests");
    __CPROVER_assume(k < 6);
    used[k] = 1; vr_live++; *p = blk(k); return 0;
}
void vr_free(void *p) { if (!p) return; int f = 0; for (int k = 0; k < 6; k++) if (p == blk(k)) { __CPROVER_assert(used[k] == 1, "block released exactly once"); used[k] = 2; f = 1; } __CPROVER_assert(f, "free() of an allocated block start"); vr_live--; }
void *memset(void *d, int c, size_t n) { __CPROVER_assert(c == 0, "memset(0) on a fresh arena block"); return d; }
#else
int posix_memalign(void **p, size_t al, size_t sz) { void *q = malloc(sz); __CPROVER_assume(q != NULL); vr_live++; *p = q; return 0; }
void vr_free(void *p) { if (p) { vr_live--; (free)(p); } }
#endif
#include "arch/abtd_affinity_parser.c"
#ifndef ND
#define ND 1
#endif
#ifndef NDA
#define NDA ND
#endif
static int put_num(char *s, int pos, long long *v, int nd)
{
    char sg = nondet_char(); __CPROVER_assume(sg == '+' || sg == '-'); s[pos++] = sg;
    long long x = 0;
    for (int i = 0; i < nd; i++) { char c = nondet_char(); __CPROVER_assume(c >= '0' && c <= '9'); s[pos++] = c; x = x * 10 + (c - '0'); }
    *v = sg == '-' ? -x : x;
    return pos;
}
int main(void)
{
    ABTD_affinity_list *L = (ABTD_affinity_list *)&vr_live;
#if MODE == 0
    char s[2 * (ND + 1) + NDA + 1 + 12]; int p = 0; long long A, C, E;
    s[p++] = '{'; p = put_num(s, p, &A, NDA); s[p++] = ':'; s[p++] = '2'; s[p++] = ':'; p = put_num(s, p, &C, ND); s[p++] = '}';
    s[p++] = ':'; s[p++] = '2'; s[p++] = ':'; p = put_num(s, p, &E, ND); s[p] = 0;
    int r = ABTD_affinity_list_create(s, &L);
    int fits = 1;
    for (int k = 0; k < 2; k++) for (int t = 0; t < 2; t++) { long long id = A + C * t + E * k; if (id > 2147483647LL || id < -2147483647LL - 1) fits = 0; }
    if (A > 2147483647LL || C > 2147483647LL || E > 2147483647LL || A < -2147483647LL || C < -2147483647LL || E < -2147483647LL) fits = 0;   /* a field that does not fit is rejected by the lexer */
    if (fits) {
        VR_ASSERT(r == ABT_SUCCESS, "a string matching the grammar is accepted");
        if (r == ABT_SUCCESS) {
            VR_ASSERT(L->num == 2, "<interval> ':2' yields two id-lists");
            for (int k = 0; k < 2; k++) { VR_ASSERT(L->p_id_lists[k]->num == 2, "each id-list has the two ids of {A:2:C}"); for (int t = 0; t < 2; t++) VR_ASSERT(L->p_id_lists[k]->ids[t] == (int)(A + C * t + E * k), "expansion: id = A + C*t + E*k"); }
            ABTD_affinity_list_free(L);
            VR_WITNESS("accepted and expanded");
        }
    } else {
        VR_ASSERT(r != ABT_SUCCESS, "an interval whose ids do not fit in int is rejected, not wrapped around");
        VR_WITNESS("expansion does not fit in int");
    }
    VR_ASSERT(vr_live == 0, "everything allocated by the parser is released");
#elif MODE == 6
    /* the allocation list itself (list_calloc / list_realloc / list_free_all), which every error path of the parser relies on:
     * build a list of n blocks, re-allocate a solver-chosen one (head, middle or tail), allocate one more, free everything */
    alloc_list al = { NULL, NULL }; void *pl[3] = { 0, 0, 0 };
    int n = nondet_int(); __CPROVER_assume(n >= 1 && n <= 3);
    for (int i = 0; i < 3; i++) if (i < n) { int r0 = list_calloc(&al, 8, &pl[i]); VR_ASSERT(r0 == ABT_SUCCESS, "allocation succeeds"); ((int *)pl[i])[0] = 100 + i; }
    int w = nondet_int(); __CPROVER_assume(w >= 0 && w < n);
    int r1 = list_realloc(&al, 8, 16, &pl[w]);
    VR_ASSERT(r1 == ABT_SUCCESS && ((int *)pl[w])[0] == 100 + w, "re-allocation keeps the contents");
    void *extra; int r2 = list_calloc(&al, 8, &extra);
    VR_ASSERT(r2 == ABT_SUCCESS, "allocation succeeds");
    /* the list must reach every live block exactly once, forwards */
    int cnt = 0; alloc_header *h = al.p_head, *prev = NULL;
    for (int i = 0; i < 5; i++) if (h) { VR_ASSERT(h->p_prev == prev, "allocation list: p_prev consistent"); int live = 0; for (int k = 0; k < 5; k++) if ((void *)h == (void *)gb(k)) live = gused[k] == 1; VR_ASSERT(live, "allocation list links only live blocks (no freed block is written to or followed)"); cnt++; prev = h; h = h->p_next; }
    VR_ASSERT(h == NULL && cnt == n + 1 && al.p_tail == prev, "allocation list holds every live block exactly once and p_tail is its last block");
    list_free_all(al.p_head);
    VR_ASSERT(vr_live == 0, "list_free_all releases every block");
    if (w == n - 1 && n >= 2) VR_WITNESS("the tail block was re-allocated");
    if (w == 0 && n >= 2) VR_WITNESS("the head block was re-allocated");
#elif MODE == 5
    /* "{a,b}" (two comma-separated intervals inside braces: the id array is re-allocated while it is the LAST block of the
     * allocation list) through the whole ABTD_affinity_list_create; a, b single symbolic digits */
    char s[6]; char a = nondet_char(), b = nondet_char(); __CPROVER_assume(a >= '0' && a <= '9' && b >= '0' && b <= '9');
    s[0] = '{'; s[1] = a; s[2] = ','; s[3] = b; s[4] = '}'; s[5] = 0;
    int r = ABTD_affinity_list_create(s, &L);
    VR_ASSERT(r == ABT_SUCCESS && L->num == 1 && L->p_id_lists[0]->num == 2 && L->p_id_lists[0]->ids[0] == a - '0' && L->p_id_lists[0]->ids[1] == b - '0', "{a,b} is one id-list with the ids a, b");
    if (r == ABT_SUCCESS) ABTD_affinity_list_free(L);
    VR_ASSERT(vr_live == 0, "everything allocated by the parser is released (the allocation list reaches every block)");
    VR_WITNESS("parsed");
#elif MODE == 4
    /* "A:2:E": two id-lists {A}, {A+E} through the whole ABTD_affinity_list_create */
    char s[(ND + 1) + NDA + 1 + 6]; int p = 0; long long A, E;
    p = put_num(s, p, &A, NDA); s[p++] = ':'; s[p++] = '2'; s[p++] = ':'; p = put_num(s, p, &E, ND); s[p] = 0;
    int r = ABTD_affinity_list_create(s, &L);
    long long last = A + E;
    int fits = A <= 2147483647LL && A >= -2147483647LL && E <= 2147483647LL && E >= -2147483647LL && last <= 2147483647LL && last >= -2147483647LL - 1;
    if (fits) { VR_ASSERT(r == ABT_SUCCESS && L->num == 2 && L->p_id_lists[0]->num == 1 && L->p_id_lists[1]->num == 1 && L->p_id_lists[0]->ids[0] == (int)A && L->p_id_lists[1]->ids[0] == (int)last, "A:2:E expands to the id-lists {A}, {A+E}"); if (r == ABT_SUCCESS) ABTD_affinity_list_free(L); VR_WITNESS("accepted and expanded"); }
    else { if (r == ABT_SUCCESS) ABTD_affinity_list_free(L); VR_WITNESS("expansion does not fit in int: outside the claim"); }
    VR_ASSERT(vr_live == 0, "everything allocated by the parser is released");
#elif MODE == 3
    /* "{A:2:C}" through parse_es_id_list only */
    char s[(ND + 1) + NDA + 1 + 8]; int p = 0; long long A, C;
    s[p++] = '{'; p = put_num(s, p, &A, NDA); s[p++] = ':'; s[p++] = '2'; s[p++] = ':'; p = put_num(s, p, &C, ND); s[p++] = '}'; s[p] = 0;
    alloc_list al = { NULL, NULL }; ABTD_affinity_id_list *idl = NULL; uint32_t idx = 0;
    int r = parse_es_id_list(&al, s, &idx, &idl);
    long long last = A + C;
    int fits = A <= 2147483647LL && A >= -2147483647LL && C <= 2147483647LL && C >= -2147483647LL && last <= 2147483647LL && last >= -2147483647LL - 1;
    if (fits) { VR_ASSERT(r == ABT_SUCCESS && idl->num == 2 && idl->ids[0] == (int)A && idl->ids[1] == (int)last, "{A:2:C} expands to A, A+C"); VR_WITNESS("accepted and expanded"); }
#if NDA >= 10
    else VR_WITNESS("expansion does not fit in int: outside the claim (the real code wraps modulo 2^32 without undefined behaviour; see DESIGN.md)");
#endif
    list_free_all(al.p_head);
    VR_ASSERT(vr_live == 0, "everything allocated by the parser is released");
#else
    char s[LEN + 1];
    for (int i = 0; i < LEN; i++) s[i] = nondet_char();
    s[LEN] = 0;
    int r = ABTD_affinity_list_create(s, &L);
    if (r == ABT_SUCCESS) { VR_ASSERT(L != (ABTD_affinity_list *)&vr_live && L->num >= 1, "an accepted string yields at least one id-list"); ABTD_affinity_list_free(L); VR_WITNESS("some string accepted"); }
    else { VR_ASSERT(L == (ABTD_affinity_list *)&vr_live, "a rejected string leaves the output untouched"); VR_WITNESS("some string rejected"); }
    VR_ASSERT(vr_live == 0, "everything allocated by the parser is released exactly once");
#endif
    return 0;
}
