/* C20-O1a: ABTU_hashtable_{create,set,get,delete,free} -- every sequence of NOPS operations over NKEYS fully symbolic
 * int keys (negative, INT_MIN, colliding: all chosen by the solver) on a table of NENT buckets, against a ghost map. */
#include "abti.h"
#include "vr.h"
#include "util/hashtable.c"

#ifndef NOPS
#define NOPS 5
#endif
#ifndef NENT
#define NENT 2
#endif
#define NKEYS 3
#ifndef DSZ
#define DSZ 8
#endif

int main(void)
{
    int key[NKEYS]; int present[NKEYS]; uint64_t val[NKEYS];
    for (int i = 0; i < NKEYS; i++) { key[i] = nondet_int(); present[i] = 0; val[i] = 0; }
    VR_ASSUME(key[0] != key[1] && key[0] != key[2] && key[1] != key[2]);
    ABTU_hashtable *h = 0;
    int r = ABTU_hashtable_create(NENT, DSZ, &h);
    VR_ASSERT(r == ABT_SUCCESS && h, "create succeeds");
    int chained_delete_head = 0, overw = 0;
    for (int n = 0; n < NOPS; n++) {
        int op = nondet_int(), k = nondet_int();
        VR_ASSUME(op >= 0 && op < 3 && k >= 0 && k < NKEYS);
        if (op == 0) {
            uint64_t d = nondet_u64(); int ow = -1;
            r = ABTU_hashtable_set(h, key[k], &d, &ow);
            VR_ASSERT(r == ABT_SUCCESS, "set succeeds");
            VR_ASSERT(ow == present[k], "set: overwritten flag iff key was present");
            if (ow) overw = 1;
            present[k] = 1; val[k] = (DSZ == 8) ? d : (d & 0xffffffffu);
        } else if (op == 1) {
            uint64_t d = 0; int found = -1;
            ABTU_hashtable_get(h, key[k], &d, &found);
            VR_ASSERT(found == present[k], "get: found iff present");
            if (found) VR_ASSERT(d == val[k], "get: returns last value set for this key");
        } else {
            int del = -1;
            ABTU_hashtable_delete(h, key[k], &del);
            VR_ASSERT(del == present[k], "delete: deleted flag iff present");
            if (del && present[0] + present[1] + present[2] == 3) chained_delete_head = 1;
            present[k] = 0;
        }
    }
    /* final: the whole map agrees, a never-set key is absent */
    for (int i = 0; i < NKEYS; i++) {
        uint64_t d = 0; int found = -1;
        ABTU_hashtable_get(h, key[i], &d, &found);
        VR_ASSERT(found == present[i], "final: found iff present");
        if (found) VR_ASSERT(d == val[i], "final: value preserved across other keys' operations");
    }
    int other = nondet_int(), f2 = -1;
    VR_ASSUME(other != key[0] && other != key[1] && other != key[2]);
    ABTU_hashtable_get(h, other, 0, &f2);
    VR_ASSERT(f2 == 0, "a key never set is not found");
    if (chained_delete_head && overw) VR_WITNESS("delete from a full table after an overwrite");
    if (key[0] < 0 && key[1] == -2147483647 - 1 && present[0] && present[1] && present[2]) VR_WITNESS("negative and INT_MIN keys stored together");
    ABTU_hashtable_free(h);
    return 0;
}
