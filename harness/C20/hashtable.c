/* C20-O1a: ABTU_hashtable_{create,set,get,delete,free}: a table of NENT buckets pre-filled (by the real set) with
 * 0..3 entries under fully symbolic int keys (negative, INT_MIN, colliding: chosen by the solver), then ONE symbolic
 * operation, then the whole map is read back and compared with a ghost map.
 * Memory model: posix_memalign hands out typed, zero-initialised arena objects of exactly the requested size (cbmc's
 * untyped malloc objects make this code explode); memset(0) on a fresh arena block is a checked no-op; memcpy is typed. */
#include "abti.h"
#include "vr.h"
#include "stub_io.h"
#ifndef NENT
#define NENT 2
#endif
#define DSZ 8
struct elt { ABTU_hashtable_element e; uint64_t data; char pad[64 - sizeof(ABTU_hashtable_element) - 8]; };
struct tab { ABTU_hashtable h; struct elt el[NENT]; char pad[64 - sizeof(ABTU_hashtable)]; }; /* ABTU_malloc rounds the size up to a cache-line multiple */
static struct tab TAB; static int tab_used;
static struct elt E0, E1; static int e_used[2], e_freed[2]; /* 3 keys => at most 2 chained elements */
static struct elt *const EP[2] = { &E0, &E1 };
int posix_memalign(void **p, size_t al, size_t sz)
{
    if (sz == sizeof(struct tab) && !tab_used) { tab_used = 1; *p = &TAB; return 0; }
    __CPROVER_assert(sz == sizeof(struct elt), "allocation size is one 64-byte element");
    for (int i = 0; i < 2; i++) if (!e_used[i]) { e_used[i] = 1; *p = EP[i]; return 0; }
    __CPROVER_assert(0, "arena exhausted"); __CPROVER_assume(0); return 12;
}
void free(void *p)
{
    if (p == &TAB) { __CPROVER_assert(tab_used == 1, "table freed once"); tab_used = 2; return; }
    for (int i = 0; i < 2; i++) if (p == EP[i]) { __CPROVER_assert(e_used[i] && !e_freed[i], "chain element freed exactly once"); e_freed[i] = 1; return; }
    __CPROVER_assert(0, "free() of a pointer that was not allocated");
}
void *memset(void *d, int c, size_t n) { __CPROVER_assert(c == 0, "memset(0) only (fresh arena blocks are already zero)"); return d; }
void *memcpy(void *d, const void *s, size_t n)
{
    if (n == 8) *(uint64_t *)d = *(const uint64_t *)s;
    else if (n == sizeof(struct elt)) *(struct elt *)d = *(const struct elt *)s;
    else __CPROVER_assert(0, "unexpected memcpy size");
    return d;
}
#include "util/hashtable.c"

int main(void)
{
    int key[3], present[3]; uint64_t val[3];
    for (int i = 0; i < 3; i++) { key[i] = nondet_int(); val[i] = nondet_u64(); present[i] = 0; }
    VR_ASSUME(key[0] != key[1] && key[0] != key[2] && key[1] != key[2]);
    ABTU_hashtable *h = 0;
    int r = ABTU_hashtable_create(NENT, DSZ, &h);
    VR_ASSERT(r == ABT_SUCCESS && h == &TAB.h, "create succeeds");
#ifdef NPRE
    int n = NPRE;   /* shape mode: number of pre-inserted keys and the operated key slot are concrete, keys/values symbolic */
#else
    int n = nondet_int(); VR_ASSUME(n >= 0 && n <= 3);
#endif
    for (int i = 0; i < 3; i++) if (i < n) { int ow = -1; r = ABTU_hashtable_set(h, key[i], &val[i], &ow); VR_ASSERT(r == ABT_SUCCESS && ow == 0, "fresh key: set succeeds, not an overwrite"); present[i] = 1; }
#ifdef KSLOT
    int k = KSLOT;
#else
    int k = nondet_int(); VR_ASSUME(k >= 0 && k < 3);
#endif
#if OP == 0
    { uint64_t d = nondet_u64(); int ow = present[k]; r = ABTU_hashtable_set(h, key[k], &d, NULL); VR_ASSERT(r == ABT_SUCCESS, "set succeeds"); if (ow && n == 3) VR_WITNESS("overwrite in a 3-entry table"); present[k] = 1; val[k] = d; }
#elif OP == 1
    { int del = present[k]; ABTU_hashtable_delete(h, key[k], NULL); /* the config objects pass NULL for the deleted flag; it is not observable */
      if (del && n == 3 && k == 0) VR_WITNESS("deleted the first-inserted of 3"); if (del && n == 3 && k == 2) VR_WITNESS("deleted the last-inserted of 3"); if (del && n == 3 && k == 1) VR_WITNESS("deleted the middle of 3"); if (!del) VR_WITNESS("delete of absent key");
      present[k] = 0; }
#endif
    for (int i = 0; i < 3; i++) { uint64_t d = 0; int f = -1; ABTU_hashtable_get(h, key[i], &d, &f); VR_ASSERT(f == present[i], "get: found iff present (no entry lost, none resurrected)"); if (f) VR_ASSERT(d == val[i], "get: last value set for this key"); }
    int other = nondet_int(), f2 = -1; VR_ASSUME(other != key[0] && other != key[1] && other != key[2]);
    ABTU_hashtable_get(h, other, 0, &f2);
    VR_ASSERT(f2 == 0, "a key never set is not found");
#if OP == 2
    if (key[0] < 0 && key[1] == -2147483647 - 1 && key[2] > 0) VR_WITNESS("negative, INT_MIN and positive keys looked up");
#endif
#if OP != 2
    if (n == 3 && key[0] < 0 && key[1] == -2147483647 - 1 && ((long)key[0] - (long)key[2]) % NENT == 0) VR_WITNESS("negative, INT_MIN and colliding keys");
#endif
    ABTU_hashtable_free(h);
    VR_ASSERT(tab_used == 2, "table freed");
    for (int i = 0; i < 2; i++) VR_ASSERT(!e_used[i] || e_freed[i], "every chain element released (no leak)");
    return 0;
}
