/* C03-O1: ABT_thread_join / ABT_thread_free as the focus (joiner = ULT0 on ES0, or an external thread), target = ULT1
 * running on ES1.  Environment = the target's way out, split at its two real steps so that the solver can place them
 * anywhere relative to the joiner's handshake (before, in the middle of, or after it, incl. while the joiner is parked):
 *   step A  ABTI_ythread_resume_joiner()   (claims REQ_JOIN, waits for p_link if a join request is in flight, then wakes the
 *                                           joiner: push for a ULT, futex for an external thread)
 *   step B  ABTI_ythread_callback_exit()   (ABTI_thread_terminate: stores TERMINATED)
 * This is exactly the exit path of ABT_thread_exit_to / cancellation and of ABTI_ythread_exit for a joiner on another
 * stream; the same-stream jump of ABTI_ythread_exit is the subject of exit.c.  A third agent may poll the state. */
#include "vr_hooks.h"
#include "abti.h"
#include "world.h"
#include "stub_io.h"
static int t_pc;          /* 0 running, 1 joiner resumed (step A done), 2 terminated (step B done) */
static int target_done_writes;
#if FOCUS_EXT
#define AGENT_A (-1)
#else
#define AGENT_A 0
#endif
static void env_step(void)
{
    int who = nondet_int();
    vr_env_noblock = 1;
    as_agent(1);
    if (who == 1 && t_pc == 0) {
        target_done_writes = 1;                   /* the target's function has returned: its last write */
        /* step A may have to wait for the joiner's p_link (spin): only schedulable when it would not spin forever */
        if (!((ULT1.thread.request.val & ABTI_THREAD_REQ_JOIN) && ULT1.ctx.p_link.val.val == NULL)) { t_pc = -1; /* in progress: a nested environment step must not start it again */ ABTI_ythread_resume_joiner(&ES1, &ULT1); t_pc = 1; }
        else target_done_writes = 0;
    } else if (who == 2 && t_pc == 1) {
        t_pc = -2; ABTI_ythread_callback_exit(&ULT1); t_pc = 2;
        __CPROVER_assert(ULT1.thread.state.val == ABT_THREAD_STATE_TERMINATED, "terminate stores TERMINATED");
    }
    vr_env_noblock = 0;
}
/* the joiner polls (thread_join_busywait) for TERMINATED.  If at that moment REQ_JOIN is set, no joiner link is published and
 * the target has not passed its wake-up step, the target will wait for the link forever (the only joiner is busy polling, i.e.
 * past the point where it publishes the link) and the join never returns: a liveness failure decided as a safety property. */
void vr_pause(void)
{
    __CPROVER_assert(!(t_pc == 0 && (ULT1.thread.request.val & ABTI_THREAD_REQ_JOIN) && ULT1.ctx.p_link.val.val == NULL),
                     "join hand-shake: the joiner claimed the join (REQ_JOIN) but polls for termination without ever publishing its link: the target waits for the link forever");
}
static void vr_after_switch(int k)
{
    vr_depth++; if (nondet_bool()) env_step(); vr_depth--; as_agent(k);
    world_wait_and_resume(k);
}
static void vr_stuck(const char *w)
{
    __CPROVER_assert(!(t_pc >= 1), "missed hand-off: the target has passed its joiner wake-up but the joiner is neither pushed nor awake");
}
int main(void)
{
    world_init();
    ULT1.thread.state.val = ABT_THREAD_STATE_RUNNING;     /* the target is running on ES1 */
    /* or: the target sits in a pool (it last ran on a solver-chosen stream, possibly the joiner's) and is being CANCELLED: the
     * scheduler of ES1 that popped it runs the same two steps (ABTI_thread_handle_request_cancel) */
    if (nondet_bool()) { ULT1.thread.state.val = ABT_THREAD_STATE_READY; ULT1.thread.p_last_xstream = nondet_bool() ? &ES0 : (nondet_bool() ? &ES2 : NULL); }
    int other_req = nondet_bool();                        /* another request (migration) may already be pending on the target */
    if (other_req) ULT1.thread.request.val = ABTI_THREAD_REQ_MIGRATE;
    int pre = nondet_int(); VR_ASSUME(pre >= 0 && pre <= 2);
    as_agent(1);
    if (pre >= 1) { target_done_writes = 1; ABTI_ythread_resume_joiner(&ES1, &ULT1); t_pc = 1; }   /* join issued DURING / AFTER termination */
    if (pre == 2) { ABTI_ythread_callback_exit(&ULT1); t_pc = 2; }
    vr_in_init = 0;
    as_agent(AGENT_A);
#if USE_FREE
    ABT_thread h = (ABT_thread)&ULT1;
    /* ABT_thread_free joins first; the release itself needs the memory layer and is checked in C15: stop after the join */
    int r = ABT_thread_join(h);
#else
    int r = ABT_thread_join((ABT_thread)&ULT1);
#endif
    VR_ASSERT(r == ABT_SUCCESS, "join succeeds");
    VR_ASSERT(ULT1.thread.state.val == ABT_THREAD_STATE_TERMINATED && t_pc == 2, "join returns only after the target has terminated");
    VR_ASSERT(target_done_writes, "the target's function had returned (its writes precede the joiner's return)");
#if !FOCUS_EXT
    VR_ASSERT(PL0.num_blocked.val == 0, "joiner's blocked counter balanced");
    VR_ASSERT(vr_resumed[0] <= 3 && !sp_in[0], "joiner not left queued");
    if (pre == 0 && ULT1.ctx.p_link.val.val == (void *)&ULT0.ctx) VR_WITNESS("joiner suspended on the target and was resumed by it");
    if (pre == 1) VR_WITNESS("join issued while the target was terminating: fall-back wait");
#else
    if (pre == 0 && vr_futex_wakes > 0) VR_WITNESS("external joiner slept in the futex and was woken");
#endif
    if (pre == 2) VR_WITNESS("join after termination returns at once");
    if (other_req && pre == 0) VR_WITNESS("join completed although another request was pending on the target when it was issued");
    return 0;
}
