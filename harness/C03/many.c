/* C03-O3: ABT_thread_free_many / ABT_thread_join_many over a handle array with holes.  Entries may be ABT_THREAD_NULL at any
 * position (the routines themselves write NULL handles, and ABT_thread_free does); every non-NULL entry -- before, between and
 * after holes -- must be joined (and, for free_many, released exactly once and its handle reset).  The targets have already
 * terminated (the waiting itself is join_ult / join_ext's subject); release is observed through the allocator (cbmc's free()
 * checks + leak check): descriptors are malloc'ed tasklet-type units. */
#include <stdlib.h>
void vr_free(void *p);
#define free(p) vr_free(p)
#include "abti.h"
#if OP >= 2
void vr_pause(void);
#define ABTD_atomic_pause() vr_pause()      /* the polling loop of thread_join_busywait in thread.c (included below) */
#endif
#include "vr.h"
#include "stub_io.h"
#include "thread.c"
ABTI_global *gp_ABTI_global; ABTD_XSTREAM_LOCAL ABTI_local *lp_ABTI_local;
static ABTI_global G; static ABTI_pool P;
void ABTI_unit_unmap_thread(ABTI_global *g, ABT_unit u) {}
static int live;
static ABTI_ythread D0, D1, D2; static int freed[3], nmk;      /* typed "malloc'ed" descriptors + release ledger */
void vr_free(void *p) { int k = p == (void *)&D0 ? 0 : p == (void *)&D1 ? 1 : p == (void *)&D2 ? 2 : -1; __CPROVER_assert(k >= 0, "free() of a descriptor"); if (k >= 0) { __CPROVER_assert(!freed[k], "a descriptor is released exactly once"); __CPROVER_assert((k == 0 ? &D0 : k == 1 ? &D1 : &D2)->thread.state.val == ABT_THREAD_STATE_TERMINATED, "a unit is released only after it has TERMINATED (never while it is still running)"); freed[k] = 1; live--; } }
static ABTI_thread *mk(void)
{
    int k = nmk++; ABTI_thread *t = k == 0 ? &D0.thread : k == 1 ? &D1.thread : &D2.thread;
    t->type = ABTI_THREAD_TYPE_THREAD | ABTI_THREAD_TYPE_NAMED | ABTI_THREAD_TYPE_MEM_MALLOC_DESC; t->state.val = ABT_THREAD_STATE_TERMINATED; t->request.val = 0;
    t->p_pool = &P; t->p_keytable.val = NULL; ABTI_unit_init_builtin(t); live++;
    return t;
}
#if OP >= 2
/* each poll lets the polled-for unit finish: the first unit of the array that has not terminated yet terminates */
void vr_pause(void) { ABTI_thread *ts[3] = { &D0.thread, &D1.thread, &D2.thread }; for (int i = 0; i < 3; i++) if (ts[i]->state.val != ABT_THREAD_STATE_TERMINATED && ts[i]->p_pool == &P) { ts[i]->state.val = ABT_THREAD_STATE_TERMINATED; return; } }
#endif
static void one_pattern(int pat)
{
    /* (patterns are enumerated, not symbolic: a handle that is "NULL or a descriptor" by the solver's choice makes cbmc explore
     * every memory-provenance branch of the release for an unknown object -- 45 GB, no verdict; the routines' control flow
     * depends on nothing but this pattern) */
    ABT_thread hs[3]; int present[3];
    nmk = 0; live = 0; for (int i = 0; i < 3; i++) freed[i] = 0;
    for (int i = 0; i < 3; i++) { present[i] = (pat >> i) & 1; hs[i] = present[i] ? (ABT_thread)mk() : ABT_THREAD_NULL; }
#if OP == 0
    int r = ABT_thread_free_many(3, hs);
    VR_ASSERT(r == ABT_SUCCESS, "free_many succeeds");
    for (int i = 0; i < 3; i++) VR_ASSERT(hs[i] == ABT_THREAD_NULL, "free_many resets every handle, also those after a NULL entry");
    VR_ASSERT(live == 0, "every non-NULL entry was joined and released exactly once -- also entries after a NULL hole");
#elif OP == 3
    /* free_many of targets that are still RUNNING (external caller): each is joined first, then released once, handle reset */
    for (int i = 0; i < 3; i++) if (present[i]) ((ABTI_thread *)hs[i])->state.val = ABT_THREAD_STATE_RUNNING;
    int r = ABT_thread_free_many(3, hs);
    VR_ASSERT(r == ABT_SUCCESS, "free_many succeeds");
    for (int i = 0; i < 3; i++) VR_ASSERT(hs[i] == ABT_THREAD_NULL, "free_many resets every handle, also those after a NULL entry");
    VR_ASSERT(live == 0, "every non-NULL entry was joined (waited for) and released exactly once -- also entries after a NULL hole");
#elif OP == 2
    /* tasklet targets that are still RUNNING; the caller is an external thread and polls each one until it has terminated */
    for (int i = 0; i < 3; i++) if (present[i]) ((ABTI_thread *)hs[i])->state.val = ABT_THREAD_STATE_RUNNING;
    int r = ABT_thread_join_many(3, hs);
    VR_ASSERT(r == ABT_SUCCESS, "join_many succeeds");
    for (int i = 0; i < 3; i++) if (present[i]) VR_ASSERT(((ABTI_thread *)hs[i])->state.val == ABT_THREAD_STATE_TERMINATED, "join_many returns only after EVERY non-NULL entry has terminated -- also entries after a NULL hole");
    live = 0;
#else
    int r = ABT_thread_join_many(3, hs);
    VR_ASSERT(r == ABT_SUCCESS, "join_many succeeds");
    for (int i = 0; i < 3; i++) if (present[i]) { VR_ASSERT(hs[i] != ABT_THREAD_NULL, "join_many keeps the handles"); ABT_thread_free(&hs[i]); }
    VR_ASSERT(live == 0, "all units could be freed afterwards");
#endif
}
int main(void)
{
    gp_ABTI_global = &G; P.is_builtin = ABT_TRUE;
    for (int pat = 0; pat < 8; pat++) one_pattern(pat);
    VR_WITNESS("all eight NULL / non-NULL patterns of a three-entry array");
    return 0;
}
