/* C03-O2: the exiting ULT as focus.  T = ULT1 running on ES1 calls the real ABTI_ythread_exit (what returning from the ULT
 * function, ABT_self_exit and ABT_thread_exit do).  A joiner J = ULT0 may be joining T at the same time; the joiner's handshake
 * is two real pieces placed by the solver at T's atomic instructions (incl. inside T's wait for the link):
 *   J1  fetch_or(REQ_JOIN) on T's request word   (thread_join; if the bit was already set J falls back to polling and never links)
 *   J2  the real ABTI_ythread_callback_suspend_join (J becomes BLOCKED, counted, and publishes its context in T->ctx.p_link)
 * J last ran on T's stream (same-stream hand-off: T jumps straight into J) or on another one (T re-pushes J) -- symbolic.
 * With -DCANCEL the focus is the real ABTI_thread_handle_request_cancel instead (T is cancelled while it sits in a pool).
 * Checked at the final jump of T (it never returns): exactly one of {jump into J, push J, nothing} happened, and "nothing" only
 * if J never linked; J is RUNNING on T's stream after a direct jump (not also queued), READY and queued exactly once after a
 * push; J's blocked count is balanced; T ends TERMINATED through the real exit callback; J is never woken before it is BLOCKED. */
#define VR_OWN_NORETURN_MODEL
#include "vr_hooks.h"
#include "abti.h"
#include "world.h"
#include "stub_io.h"
static int j_pc, j_same_stream, jumped_to_joiner, jumped_to_parent, final_checks_done;
static ABTI_ythread_callback_suspend_join_arg JARG;
static void env_step(void)
{
    int a = nondet_int();
    as_agent(0);
    if (j_pc == 0 && a == 1) { uint32_t req = ABTD_atomic_fetch_or_uint32(&ULT1.thread.request, ABTI_THREAD_REQ_JOIN); j_pc = (req & ABTI_THREAD_REQ_JOIN) ? 9 /* target already terminating: J polls, never links */ : 1; }
    else if (j_pc == 1 && a == 2) { j_pc = -1; JARG.p_prev = &ULT0; JARG.p_target = &ULT1; ES0.p_thread = &SCHED0.thread; ABTI_ythread_callback_suspend_join(&JARG); j_pc = 2; }
    as_agent(1);
}
static void vr_after_switch(int k) {}
static void vr_stuck(const char *w) {}
static void final_checks(void)
{
    final_checks_done = 1;
    VR_ASSERT(ULT1.thread.state.val == ABT_THREAD_STATE_TERMINATED, "the exiting ULT ends TERMINATED (through the real exit callback)");
    int pushed = sp_in[0];
    if (j_pc == 2) {
        VR_ASSERT(jumped_to_joiner + pushed == 1, "a linked joiner is woken exactly once: either T jumps into it or T re-pushes it -- never both, never neither");
        if (jumped_to_joiner) { VR_ASSERT(j_same_stream, "a direct jump only into a joiner of the same stream"); VR_ASSERT(ULT0.thread.state.val == ABT_THREAD_STATE_RUNNING && ES1.p_thread == &ULT0.thread, "after the jump the joiner is RUNNING on T's stream");
#ifndef CANCEL
            VR_WITNESS("same-stream hand-off: T jumped into its joiner");
#endif
        }
        else { VR_ASSERT(ULT0.thread.state.val == ABT_THREAD_STATE_READY, "a re-pushed joiner is READY"); VR_WITNESS("joiner of another stream re-pushed"); }
        VR_ASSERT(PL0.num_blocked.val == 0, "the joiner no longer counts as blocked");
    } else {
        VR_ASSERT(!jumped_to_joiner && !pushed, "a joiner that never linked is not touched");
        VR_ASSERT(j_pc != 1, "T does not leave while a joiner has claimed the join and is about to link (T waits for the link)");
        if (j_pc == 9) VR_WITNESS("the join request came after T had claimed REQ_JOIN: the joiner falls back to polling");
    }
}
void jump_with_call_fcontext(void *a, void (*f)(void *), fcontext_t *n)
{
    __CPROVER_assert(f == ABTI_ythread_callback_exit && a == (void *)&ULT1, "T leaves through the exit callback with itself as argument");
    if (n == &ULT0.ctx.ctx) { jumped_to_joiner = 1; __CPROVER_assert(ULT0.thread.state.val == ABT_THREAD_STATE_RUNNING || ULT0.thread.state.val == ABT_THREAD_STATE_BLOCKED, "the joiner T jumps into had been BLOCKED (its context is saved)"); }
    else { __CPROVER_assert(n == &SCHED1.ctx.ctx, "otherwise T returns to its parent scheduler"); jumped_to_parent = 1; }
    if (nondet_bool()) env_step();   /* the joiner may also arrive now, after T has made its decision */
    vr_in_init = 1;                 /* the callback runs after T's context is gone: no more scheduling points of T */
    vr_run_cb(f, a);
    final_checks();
    __CPROVER_assume(0);
}
void init_and_jump_with_call_fcontext(void *c, void (*fc)(void *), fcontext_t *n, void (*f)(fcontext_t *), void *s) { __CPROVER_assert(0, "the joiner/parent are started contexts"); __CPROVER_assume(0); }
void switch_fcontext(fcontext_t *n, fcontext_t *o) { __CPROVER_assert(0, "not expected"); __CPROVER_assume(0); }
void jump_fcontext(fcontext_t *p) { __CPROVER_assert(0, "not expected"); __CPROVER_assume(0); }
void init_and_switch_fcontext(fcontext_t *a, void (*f)(fcontext_t *), void *s, fcontext_t *o) { __CPROVER_assert(0, "not expected"); __CPROVER_assume(0); }
void init_and_jump_fcontext(fcontext_t *a, void (*f)(fcontext_t *), void *s) { __CPROVER_assert(0, "not expected"); __CPROVER_assume(0); }
int main(void)
{
    world_init();
    j_same_stream = nondet_bool();
    ULT0.thread.p_last_xstream = j_same_stream ? &ES1 : &ES0;          /* where J last ran */
    ULT0.thread.state.val = ABT_THREAD_STATE_RUNNING;
    int pre = nondet_int(); VR_ASSUME(pre >= 0 && pre <= 2);            /* how far the joiner got before T starts to exit */
    as_agent(0);
    if (pre >= 1) { ULT1.thread.request.val |= ABTI_THREAD_REQ_JOIN; j_pc = 1; }
    if (pre == 2) { JARG.p_prev = &ULT0; JARG.p_target = &ULT1; ES0.p_thread = &SCHED0.thread; ABTI_ythread_callback_suspend_join(&JARG); j_pc = 2; }
    vr_in_init = 0; as_agent(1);
#ifdef CANCEL
    /* T was popped by ES1's scheduler with a cancel request pending: the scheduler runs the real cancel handler (it returns) */
    ULT1.thread.state.val = ABT_THREAD_STATE_READY; ES1.p_thread = &SCHED1.thread; ULT1.thread.request.val |= ABTI_THREAD_REQ_CANCEL;
    ABTI_thread_handle_request_cancel(&G, &ES1, &ULT1.thread);
    if (nondet_bool()) env_step();
    vr_in_init = 1;
    VR_ASSERT(!jumped_to_joiner && !jumped_to_parent, "the cancel handler does not switch contexts");
    final_checks();
#else
    ABTI_ythread_exit(&ES1, &ULT1);
    VR_ASSERT(0, "ABTI_ythread_exit never returns");
#endif
    return 0;
}
