/* C14-O1/O2: the unit -> work-unit hash map of unit.c.
 * One bucket chain of NPRE (0..3) entries, each live (maps unit Ui to thread Ti) or a tombstone (symbolic), one real
 * operation: map of a new unit / unmap of a live unit / lookup of a live unit; then every live unit is looked up again.
 * Units are concrete handle values chosen to collide in one bucket (checked with the real hash function): a symbolic
 * bucket index over 256 entries is beyond cbmc.  -DPPS: the operation runs under preemption-point scheduling and another
 * stream performs one complete real map/unmap of a DIFFERENT unit in the same bucket at a solver-chosen atomic instruction. */
#ifdef PPS
#include "vr_hooks.h"
#endif
#include "abti.h"
#include "vr.h"
#include "stub_io.h"
struct ublk { struct { ABTD_atomic_ptr unit; ABTI_thread *p_thread; void *p_next; } e; char pad[40]; };
static struct ublk N0, N1; static int n_used[2];
int posix_memalign(void **p, size_t al, size_t sz)
{
    __CPROVER_assert(sz == 64, "map entry = one cache line");
    if (!n_used[0]) { n_used[0] = 1; *p = &N0; } else if (!n_used[1]) { n_used[1] = 1; *p = &N1; } else { __CPROVER_assert(0, "arena exhausted"); __CPROVER_assume(0); }
    return 0;
}
#include "unit.c"
ABTI_global *gp_ABTI_global;
static ABTI_global G;
static struct ublk B0, B1, B2;                /* pre-existing chain entries */
static ABTI_thread T0, T1, T2, TX, TY;
/* concrete unit handles that the real hash function sends to one bucket (asserted below) */
static const uintptr_t UV[6] = { 0x10000, 0x10ff8, 0x117f0, 0x11fe8, 0x127e0, 0x12fd8 };
#define U(i) ((ABT_unit)UV[i])
#ifndef NPRE
#define NPRE 3
#endif
static int live[3];
static unit_to_thread *ent(int i) { return (unit_to_thread *)(i == 0 ? &B0.e : i == 1 ? &B1.e : &B2.e); }
static ABTI_thread *thr(int i) { return i == 0 ? &T0 : i == 1 ? &T1 : &T2; }
#ifdef PPS
static int env_done, env_op, env_u, env_closed;   /* env: map(UY) or unmap(U[env_u]); closed once the focus operation has returned */
void vr_sp(void)
{
    static int depth;
    if (env_done || depth || env_closed) return;
    if (nondet_bool()) {
        depth = 1; env_done = 1;
#ifdef ENVOP
        env_op = ENVOP;   /* the kind of the concurrent operation is fixed per obligation (keeps the encoding small) */
#endif
        if (env_op == 0) { int r = ABTI_unit_map_thread(&G, U(5), &TY); __CPROVER_assert(r == ABT_SUCCESS, "concurrent map succeeds"); }
        else { ABTI_unit_unmap_thread(&G, U(env_u)); live[env_u] = 0; }
        depth = 0;
    }
}
#endif

int main(void)
{
    gp_ABTI_global = &G;
    size_t b = unit_get_hash_index(U(0));
    VR_ASSERT(unit_get_hash_index(U(1)) == b && unit_get_hash_index(U(2)) == b && unit_get_hash_index(U(4)) == b && unit_get_hash_index(U(5)) == b, "harness units collide in one bucket");
    /* chain: head = newest = entry NPRE-1 ... entry 0 (map pushes at the head) */
    for (int i = 0; i < 3; i++) if (i < NPRE) {
        live[i] = nondet_bool();
        unit_to_thread *e = ent(i);
        e->unit.val.val = live[i] ? (void *)U(i) : (void *)ABT_UNIT_NULL;
        e->p_thread = live[i] ? thr(i) : (ABTI_thread *)(nondet_bool() ? &TY : NULL);   /* stale thread pointer in a tombstone */
        e->p_next = i > 0 ? ent(i - 1) : NULL;
    }
    G.unit_to_thread_entires[b].list.val.val = NPRE ? (void *)ent(NPRE - 1) : NULL;
    G.unit_to_thread_entires[b].lock.val.val = 0;
    int nlive0 = live[0] + live[1] + live[2];
#if OP == 0      /* map a new unit */
#ifdef PPS
    env_op = nondet_int(); env_u = nondet_int();
#ifdef ENVOP
    env_op = ENVOP;
#endif
    VR_ASSUME(env_op >= 0 && env_op <= 1 && env_u >= 0 && env_u < NPRE && (env_op == 0 || live[env_u]));
#endif
    int r = ABTI_unit_map_thread(&G, U(4), &TX);
    VR_ASSERT(r == ABT_SUCCESS, "map succeeds");
    VR_ASSERT(ABTI_unit_get_thread_from_user_defined_unit(&G, U(4)) == &TX, "a mapped unit translates to its work unit");
#if NPRE > 0
    if (nlive0 < NPRE && !n_used[0]) VR_WITNESS("tombstone reused");
#endif
    if (n_used[0]) VR_WITNESS("new entry allocated");
#ifdef PPS
    if (env_done && env_op == 0) { VR_ASSERT(ABTI_unit_get_thread_from_user_defined_unit(&G, U(5)) == &TY, "both concurrently mapped units are translatable (no entry claimed twice)"); if (nlive0 < NPRE) VR_WITNESS("two maps raced for a tombstone"); }
#endif
#elif OP == 1    /* unmap a live unit */
    int k = nondet_int(); VR_ASSUME(k >= 0 && k < NPRE && live[k]);
#ifdef PPS
    env_op = nondet_int(); env_u = nondet_int();
#ifdef ENVOP
    env_op = ENVOP;
#endif
    VR_ASSUME(env_op >= 0 && env_op <= 1 && env_u >= 0 && env_u < NPRE && env_u != k && (env_op == 0 || live[env_u]));
#endif
    ABTI_unit_unmap_thread(&G, k == 0 ? U(0) : k == 1 ? U(1) : U(2));
    live[k] = 0;
    VR_WITNESS("unmapped");
#else            /* lock-free lookup of a unit that stays mapped */
    int k = nondet_int(); VR_ASSUME(k >= 0 && k < NPRE && live[k]);
#ifdef PPS
    env_op = nondet_int(); env_u = nondet_int();
#ifdef ENVOP
    env_op = ENVOP;
#endif
    VR_ASSUME(env_op >= 0 && env_op <= 1 && env_u >= 0 && env_u < NPRE && env_u != k && (env_op == 0 || live[env_u]));
#endif
    ABTI_thread *t = ABTI_unit_get_thread_from_user_defined_unit(&G, k == 0 ? U(0) : k == 1 ? U(1) : U(2));
    VR_ASSERT(t == thr(k), "lookup of a live unit returns its work unit, also while other units are mapped/unmapped");
    VR_WITNESS("looked up");
#ifdef PPS
    if (env_done) VR_WITNESS("lookup overlapped an update of the same bucket");
#endif
#endif
#ifdef PPS
    env_closed = 1;     /* the checks below are not part of the scenario: a concurrent unmap of the very unit they look up would be a user error */
#endif
    /* every unit that is live now still translates correctly; the lock is free; no live entry was lost */
    for (int i = 0; i < 3; i++) if (i < NPRE && live[i]) VR_ASSERT(ABTI_unit_get_thread_from_user_defined_unit(&G, i == 0 ? U(0) : i == 1 ? U(1) : U(2)) == thr(i), "other live units unaffected");
    VR_ASSERT(G.unit_to_thread_entires[b].lock.val.val == 0, "bucket lock released");
    /* each live unit appears exactly once in the chain */
    { unit_to_thread *p = (unit_to_thread *)G.unit_to_thread_entires[b].list.val.val; int cnt4 = 0, cnt5 = 0, c[3] = { 0, 0, 0 };
      for (int i = 0; i < 6; i++) if (p) { void *u = p->unit.val.val; if (u == (void *)U(4)) cnt4++; if (u == (void *)U(5)) cnt5++; if (u == (void *)U(0)) c[0]++; if (u == (void *)U(1)) c[1]++; if (u == (void *)U(2)) c[2]++; p = p->p_next; }
      VR_ASSERT(p == NULL, "chain well terminated");
      for (int i = 0; i < 3; i++) if (i < NPRE) VR_ASSERT(c[i] == live[i], "a unit has exactly one entry while mapped, none after unmap");
#if OP == 0
      VR_ASSERT(cnt4 == 1, "the new unit has exactly one entry");
#endif
    }
    return 0;
}
