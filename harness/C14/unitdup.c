/* C14-O5: moving a work unit between two DIFFERENT user-defined pools maps the new unit before it unmaps the old one
 * (ABTI_thread_set_associated_pool, user->user branch).  If both pools use the same handle value (e.g. unit = the thread handle,
 * a common choice) the bucket briefly holds TWO live entries with that key.  ABTI_unit_unmap_thread must then remove exactly
 * ONE of them: the unit stays translatable.  Chain of 3 entries, two of them (positions symbolic) carry the key H -> T, the
 * third is another live unit or a tombstone (symbolic). */
#include "abti.h"
#include "vr.h"
#include "stub_io.h"
int posix_memalign(void **p, size_t al, size_t sz) { __CPROVER_assert(0, "no allocation in this scenario"); return 12; }
#include "unit.c"
ABTI_global *gp_ABTI_global; static ABTI_global G;
struct ublk { unit_to_thread e; char pad[64 - sizeof(unit_to_thread)]; };
static struct ublk B0, B1, B2; static ABTI_thread T, TO;
static const uintptr_t UV[2] = { 0x10000, 0x10ff8 };     /* same bucket (asserted) */
int main(void)
{
    gp_ABTI_global = &G;
    ABT_unit H = (ABT_unit)UV[0], O = (ABT_unit)UV[1];
    size_t b = unit_get_hash_index(H);
    VR_ASSERT(unit_get_hash_index(O) == b, "harness units collide in one bucket");
    int other = nondet_int(); __CPROVER_assume(other >= 0 && other <= 2);     /* which position holds the third entry */
    int other_live = nondet_bool();
    unit_to_thread *e[3] = { &B0.e, &B1.e, &B2.e };
    for (int i = 0; i < 3; i++) {
        if (i == other) { e[i]->unit.val.val = other_live ? (void *)O : (void *)ABT_UNIT_NULL; e[i]->p_thread = &TO; }
        else { e[i]->unit.val.val = (void *)H; e[i]->p_thread = &T; }
        e[i]->p_next = i < 2 ? e[i + 1] : NULL;
    }
    G.unit_to_thread_entires[b].list.val.val = e[0]; G.unit_to_thread_entires[b].lock.val.val = 0;
    ABTI_unit_unmap_thread(&G, H);
    int cnt = 0; for (int i = 0; i < 3; i++) if (e[i]->unit.val.val == (void *)H) cnt++;
    VR_ASSERT(cnt == 1, "unmap removes exactly one entry of the key: the mapping created for the new pool survives");
    VR_ASSERT(ABTI_unit_get_thread_from_user_defined_unit(&G, H) == &T, "the unit is still translatable after the old mapping was removed");
    if (other_live) VR_ASSERT(ABTI_unit_get_thread_from_user_defined_unit(&G, O) == &TO, "other units unaffected");
    VR_ASSERT(G.unit_to_thread_entires[b].lock.val.val == 0, "bucket lock released");
    if (other == 1) VR_WITNESS("the two entries of the key are not adjacent");
    return 0;
}
