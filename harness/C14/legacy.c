/* C14-O4: the adapters that give a legacy (ABT_pool_def) user pool the current pool interface (pool.c *_wrapper functions).
 * The user pool is a counting stub queue of 0..4 units (symbolic); units translate to work units through ABTI_unit_get_thread
 * (stub: identity table -- the real map is the unitmap_* obligations' subject).  One adapter operation with symbolic arguments:
 *   pop / pop_wait : returns the work unit of exactly the unit the user pool handed out, or NULL iff it handed out nothing
 *   pop_many       : hands back exactly min(len, size) work units, in the pool's order, and takes NOT ONE UNIT MORE out of the
 *                    user pool than it returns (a unit popped but not returned would never run)
 *   push / push_many: every unit reaches the user pool's push exactly once, in order
 *   is_empty       : true iff the user pool reports size 0 */
#include "abti.h"
#include "vr.h"
#include "stub_io.h"
#include "pool/pool.c"
ABTI_global *gp_ABTI_global; ABTD_XSTREAM_LOCAL ABTI_local *lp_ABTI_local;
static ABTI_global G; static ABTI_pool P;
static ABTI_thread T0, T1, T2, T3;
static ABTI_thread *const TP[4] = { &T0, &T1, &T2, &T3 };
static char UOBJ[4][8];
#define UNIT(i) ((ABT_unit)UOBJ[i])
static int qsize, qhead, pops, pushes, pushed_order_ok = 1;
ABTI_thread *ABTI_unit_get_thread_from_user_defined_unit(ABTI_global *g, ABT_unit u) { for (int i = 0; i < 4; i++) if (u == UNIT(i)) return TP[i]; __CPROVER_assert(0, "translation of a unit the pool never handed out"); return NULL; }
static ABT_unit u_pop(ABT_pool p) { if (qsize == 0) return ABT_UNIT_NULL; pops++; qsize--; return UNIT(qhead++); }
static ABT_unit u_pop_wait(ABT_pool p, double t) { return u_pop(p); }
static void u_push(ABT_pool p, ABT_unit u) { if (u != UNIT(pushes)) pushed_order_ok = 0; pushes++; }
static size_t u_get_size(ABT_pool p) { return qsize; }
int main(void)
{
    gp_ABTI_global = &G;
    P.is_builtin = ABT_FALSE; P.old_def.p_pop = u_pop; P.old_def.p_pop_wait = u_pop_wait; P.old_def.p_push = u_push; P.old_def.p_get_size = u_get_size;
    for (int i = 0; i < 4; i++) TP[i]->unit = UNIT(i);
    qsize = nondet_int(); __CPROVER_assume(qsize >= 0 && qsize <= 4);
    int size0 = qsize;
    ABT_pool pool = (ABT_pool)&P;
#if OP == 0
    ABT_thread t = nondet_bool() ? pool_pop_wrapper(pool, ABT_POOL_CONTEXT_OP_POOL_OTHER) : pool_pop_wait_wrapper(pool, 0.1, ABT_POOL_CONTEXT_OP_POOL_OTHER);
    if (size0 == 0) VR_ASSERT(t == ABT_THREAD_NULL && pops == 0, "pop on an empty user pool returns NULL");
    else { VR_ASSERT(t == (ABT_thread)&T0 && pops == 1 && qsize == size0 - 1, "pop returns the work unit of exactly the unit the user pool handed out"); VR_WITNESS("popped"); }
#elif OP == 1
    size_t len = nondet_size_t(); __CPROVER_assume(len <= 4);
    ABT_thread out[4] = { ABT_THREAD_NULL, ABT_THREAD_NULL, ABT_THREAD_NULL, ABT_THREAD_NULL }; size_t n = 99;
    pool_pop_many_wrapper(pool, out, len, &n, ABT_POOL_CONTEXT_OP_POOL_OTHER);
    size_t expect = len < (size_t)size0 ? len : (size_t)size0;
    VR_ASSERT(n == expect, "pop_many returns min(len, size) work units");
    for (int i = 0; i < 4; i++) if ((size_t)i < n) VR_ASSERT(out[i] == (ABT_thread)TP[i], "in the pool's order, each translated to its work unit");
    VR_ASSERT((size_t)pops == n && (size_t)qsize == (size_t)size0 - n, "pop_many takes exactly the units it returns out of the user pool -- not one more (a unit popped but not returned would never run)");
    if (len < (size_t)size0 && len > 0) VR_WITNESS("the caller's buffer is smaller than the pool");
    if (len > (size_t)size0) VR_WITNESS("the pool runs empty first");
#elif OP == 2
    size_t num = nondet_size_t(); __CPROVER_assume(num <= 4);
    ABT_unit us[4] = { UNIT(0), UNIT(1), UNIT(2), UNIT(3) };
    if (nondet_bool()) { pool_push_many_wrapper(pool, us, num, ABT_POOL_CONTEXT_OP_POOL_OTHER); VR_ASSERT((size_t)pushes == num && pushed_order_ok, "push_many hands every unit to the user pool exactly once, in order"); if (num >= 2) VR_WITNESS("several units pushed"); }
    else { pool_push_wrapper(pool, UNIT(0), ABT_POOL_CONTEXT_OP_POOL_OTHER); VR_ASSERT(pushes == 1 && pushed_order_ok, "push hands the unit to the user pool exactly once"); VR_WITNESS("one unit pushed"); }
#else
    VR_ASSERT((pool_is_empty_wrapper(pool) == ABT_TRUE) == (size0 == 0), "is_empty iff the user pool reports size 0");
    VR_ASSERT(pool_get_size_wrapper(pool) == (size_t)size0, "get_size passes the user pool's size through");
    if (size0 == 0) VR_WITNESS("empty");
    if (size0 > 0) VR_WITNESS("non-empty");
#endif
    return 0;
}
