/* C14-O3: pairing of create_unit / free_unit with pool associations.
 * A work unit T associated with pool FROM in {built-in B, user pool UA, user pool UB} (symbolic) undergoes ONE operation
 * that targets pool TO (symbolic): ABTI_thread_set_associated_pool, ABTI_unit_set_associated_pool (ABT_unit_set_associated_pool),
 * ABT_pool_push_threads_ex (legacy batch push), ABTI_thread_unset_associated_pool (free), or the initial ABTI_thread_init_pool.
 * User pools are counting stubs: create_unit hands out the next concrete handle of that pool, free_unit checks that the
 * handle was created by that pool and is live.  Every handle given to a pool's push is checked live and owned by it. */
#include "abti.h"
#include "vr.h"
#include "stub_io.h"
struct ublk { struct { ABTD_atomic_ptr unit; ABTI_thread *p_thread; void *p_next; } e; char pad[40]; };
static struct ublk N0, N1, N2; static int n_used;
int posix_memalign(void **p, size_t al, size_t sz) { __CPROVER_assert(sz == 64, "map entry = one cache line"); *p = n_used == 0 ? (void *)&N0 : n_used == 1 ? (void *)&N1 : (void *)&N2; __CPROVER_assert(n_used < 3, "arena"); n_used++; return 0; }
#include "unit.c"
#include "pool/pool.c"
ABTI_global *gp_ABTI_global;
ABTD_XSTREAM_LOCAL ABTI_local *lp_ABTI_local;
static ABTI_global G;
static ABTI_pool PB, UA, UB;
static ABTI_thread T;
/* handles: pool UA -> UVA[i], pool UB -> UVB[i]; all collide in one bucket of the unit map (harder case) */
static const uintptr_t UVA[2] = { 0x10000, 0x10ff8 }, UVB[2] = { 0x117f0, 0x11fe8 };
static int a_created, b_created, a_live[2], b_live[2], a_freed, b_freed, bad_free, pushed_ok, pushed_bad, b_pushes;
static ABT_unit ua_create(ABT_pool p, ABT_thread t) { __CPROVER_assert(p == (ABT_pool)&UA && t == (ABT_thread)&T, "create_unit arguments"); __CPROVER_assert(a_created < 2, "handles"); a_live[a_created] = 1; return (ABT_unit)UVA[a_created++]; }
static ABT_unit ub_create(ABT_pool p, ABT_thread t) { __CPROVER_assert(p == (ABT_pool)&UB && t == (ABT_thread)&T, "create_unit arguments"); __CPROVER_assert(b_created < 2, "handles"); b_live[b_created] = 1; return (ABT_unit)UVB[b_created++]; }
static int freed_while_mapped;
static int still_mapped(ABT_unit u) { return N0.e.unit.val == (void *)u || N1.e.unit.val == (void *)u || N2.e.unit.val == (void *)u; }
static void ua_free(ABT_pool p, ABT_unit u) { a_freed++; if (still_mapped(u)) freed_while_mapped = 1; int ok = 0; for (int i = 0; i < 2; i++) if ((uintptr_t)u == UVA[i] && a_live[i]) { a_live[i] = 0; ok = 1; } if (!ok || p != (ABT_pool)&UA) bad_free = 1; }
static void ub_free(ABT_pool p, ABT_unit u) { b_freed++; if (still_mapped(u)) freed_while_mapped = 1; int ok = 0; for (int i = 0; i < 2; i++) if ((uintptr_t)u == UVB[i] && b_live[i]) { b_live[i] = 0; ok = 1; } if (!ok || p != (ABT_pool)&UB) bad_free = 1; }
static void chk_push(ABT_pool p, ABT_unit u)
{
    int ok = 0;
    if (p == (ABT_pool)&PB) { ok = (u == ABTI_unit_get_builtin_unit(&T)); b_pushes++; }
    else if (p == (ABT_pool)&UA) { for (int i = 0; i < 2; i++) if ((uintptr_t)u == UVA[i] && a_live[i]) ok = 1; }
    else { for (int i = 0; i < 2; i++) if ((uintptr_t)u == UVB[i] && b_live[i]) ok = 1; }
    if (ok) pushed_ok++; else pushed_bad++;
}
static void st_push(ABT_pool p, ABT_unit u, ABT_pool_context c) { chk_push(p, u); }
static void st_push_many(ABT_pool p, const ABT_unit *us, size_t n, ABT_pool_context c) { for (size_t i = 0; i < 2; i++) if (i < n) chk_push(p, us[i]); }
static ABTI_pool *pool_of(int k) { return k == 0 ? &PB : k == 1 ? &UA : &UB; }

int main(void)
{
    gp_ABTI_global = &G;
    PB.is_builtin = ABT_TRUE; UA.is_builtin = UB.is_builtin = ABT_FALSE;
    PB.required_def.p_push = UA.required_def.p_push = UB.required_def.p_push = st_push;
    PB.optional_def.p_push_many = UA.optional_def.p_push_many = UB.optional_def.p_push_many = st_push_many;
    UA.required_def.p_create_unit = ua_create; UA.required_def.p_free_unit = ua_free;
    UB.required_def.p_create_unit = ub_create; UB.required_def.p_free_unit = ub_free;
    T.type = ABTI_THREAD_TYPE_THREAD | ABTI_THREAD_TYPE_YIELDABLE;
    int from = nondet_int(), to = nondet_int(); VR_ASSUME(from >= 0 && from <= 2 && to >= 0 && to <= 2);
    int r = ABTI_thread_init_pool(&G, &T, pool_of(from));
    VR_ASSERT(r == ABT_SUCCESS && T.p_pool == pool_of(from), "initial association succeeds");
    VR_ASSERT(a_created == (from == 1) && b_created == (from == 2) && a_freed + b_freed == 0, "creation: create_unit exactly once iff the pool is user-defined");
    ABT_unit u0 = T.unit;
    if (from) VR_ASSERT(ABTI_unit_get_thread(&G, u0) == &T, "a user unit translates to its work unit");
    int a_c0 = a_created, b_c0 = b_created;
#if OP == 0
    r = ABTI_thread_set_associated_pool(&G, &T, pool_of(to));
#elif OP == 1
    { ABTI_thread *pt = NULL; r = ABTI_unit_set_associated_pool(&G, u0, pool_of(to), &pt); VR_ASSERT(pt == &T, "unit_set_associated_pool reports the work unit"); }
#elif OP == 2
    { ABT_thread ths[1] = { (ABT_thread)&T }; r = ABT_pool_push_threads_ex((ABT_pool)pool_of(to), ths, 1, ABT_POOL_CONTEXT_OP_POOL_OTHER); }
#elif OP == 3
    ABTI_thread_unset_associated_pool(&G, &T); r = ABT_SUCCESS; to = -1;
#endif
    VR_ASSERT(r == ABT_SUCCESS, "operation succeeds");
    int moved = (to != from);
    if (to >= 0) {
        VR_ASSERT(T.p_pool == pool_of(to), "work unit associated with the requested pool");
        VR_ASSERT(a_created - a_c0 == (moved && to == 1) && b_created - b_c0 == (moved && to == 2), "create_unit exactly once when the association with a user pool begins, never otherwise");
        if (to == 0) VR_ASSERT(ABTI_unit_is_builtin(T.unit), "built-in pools use the built-in unit");
        else { VR_ASSERT(!ABTI_unit_is_builtin(T.unit) && ABTI_unit_get_thread(&G, T.unit) == &T, "the live unit translates to the work unit"); VR_ASSERT(to == 1 ? (a_live[0] + a_live[1] == 1) : (b_live[0] + b_live[1] == 1), "exactly one live unit of the new pool"); }
    }
    VR_ASSERT(a_freed == (from == 1 && moved) && b_freed == (from == 2 && moved), "free_unit exactly once when the association with a user pool ends, never otherwise");
    VR_ASSERT(!freed_while_mapped, "a unit handle is removed from the unit map BEFORE it is handed back to its pool (the pool may reuse the handle at once: a later unmap would hit the new owner)");
    VR_ASSERT(!bad_free, "free_unit only for live units of the pool that created them (no use after free, no foreign unit)");
    if (from == 1 && moved) VR_ASSERT(a_live[0] == 0, "old unit no longer live");
#if OP == 2
    VR_ASSERT(pushed_ok == 1 && pushed_bad == 0, "the pool receives exactly the live unit created for it");
    if (from == 1 && to == 2) VR_WITNESS("batch push moved a work unit between two user pools");
#endif
#if OP != 3
    if (from == 2 && to == 1) VR_WITNESS("user pool to user pool");
    if (from == 1 && to == 0) VR_WITNESS("user pool to built-in");
    if (from == 0 && to == 2) VR_WITNESS("built-in to user pool");
#else
    if (from == 1) VR_WITNESS("association ended by free");
#endif
    return 0;
}
