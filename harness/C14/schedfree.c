/* C14: the real ABTI_sched_free (sched/sched.c) of a scheduler that owns 1..2 pools and a scheduler ULT.
 * The ULT is associated with one of the scheduler's pools (the main scheduler's ULT sits in the scheduler's FIRST pool:
 * xstream_update_main_sched) or with an unrelated pool; the pools are user-defined or built-in, automatic or not, shared with
 * another scheduler or not (all symbolic).  Required: the unit of the ULT is handed back (free_unit) exactly once, to the pool it
 * belongs to, and while that pool still exists -- a pool is never freed while a unit of it is live --; automatic pools that no
 * other scheduler uses are freed exactly once, the others are only released (reference count).
 * ABTI_pool_free / ABTI_thread_free are harness models: the pool free marks the pool dead; the thread free performs the real
 * ABTI_thread_unset_associated_pool (abti_unit.h), which is where the unit goes back to its pool. */
#include "abti.h"
#include "vr.h"
#include "stub_io.h"
#include "sched/sched.c"
ABTI_global *gp_ABTI_global; ABTD_XSTREAM_LOCAL ABTI_local *lp_ABTI_local;
static ABTI_global G;
static ABTI_pool P0, P1, POTHER; static int dead[3], pool_frees[3], unit_frees, bad_free, thread_frees;
static int pix(ABTI_pool *p) { return p == &P0 ? 0 : p == &P1 ? 1 : p == &POTHER ? 2 : -1; }
static ABTI_ythread YS; static char UNITOBJ;
static void up_free_unit(ABT_pool pool, ABT_unit u)
{
    int i = pix((ABTI_pool *)pool);
    unit_frees++;
    if (i < 0 || dead[i] || u != (ABT_unit)&UNITOBJ || (ABTI_pool *)pool != YS.thread.p_pool) bad_free = 1;
}
void ABTI_unit_unmap_thread(ABTI_global *g, ABT_unit u) { }
void ABTI_pool_free(ABTI_pool *p) { int i = pix(p); __CPROVER_assert(i == 0 || i == 1, "only the scheduler's own pools are freed"); if (i >= 0) { pool_frees[i]++; dead[i] = 1; } }
void ABTI_thread_free(ABTI_global *g, ABTI_local *l, ABTI_thread *t)
{
    __CPROVER_assert(t == &YS.thread, "the scheduler's own ULT is freed"); thread_frees++;
    int i = pix(t->p_pool);
    __CPROVER_assert(i >= 0 && !dead[i], "the scheduler ULT is released while the pool it is associated with still exists");
    ABTI_thread_unset_associated_pool(g, t);
}
static void *vr_pools_block;
int main(void)
{
    gp_ABTI_global = &G;
    static ABTI_sched S; static ABT_pool PS[2];
    int n = nondet_int(); VR_ASSUME(n >= 1 && n <= 2);
    /* the pool array and the scheduler are heap blocks of the library */
    ABT_pool *pl; int r = ABTU_malloc(2 * sizeof(ABT_pool), (void **)&pl); VR_ASSUME(r == ABT_SUCCESS);
    ABTI_sched *ps; r = ABTU_malloc(sizeof(ABTI_sched), (void **)&ps); VR_ASSUME(r == ABT_SUCCESS);
    pl[0] = (ABT_pool)&P0; pl[1] = (ABT_pool)&P1;
    ps->pools = pl; ps->num_pools = n; ps->used = ABTI_SCHED_NOT_USED; ps->free = NULL; ps->data = NULL; ps->p_ythread = &YS; ps->automatic = ABT_TRUE;
    int user0 = nondet_bool(), user1 = nondet_bool(), userx = nondet_bool();
    P0.is_builtin = !user0; P1.is_builtin = !user1; POTHER.is_builtin = !userx;
    P0.required_def.p_free_unit = P1.required_def.p_free_unit = POTHER.required_def.p_free_unit = up_free_unit;
    P0.automatic = nondet_bool(); P1.automatic = nondet_bool(); POTHER.automatic = ABT_FALSE;
    int shared0 = nondet_bool(), shared1 = nondet_bool();
    P0.num_scheds.val = 1 + shared0; P1.num_scheds.val = 1 + shared1; POTHER.num_scheds.val = 1;
    int force = nondet_bool();
    /* the scheduler ULT: in the scheduler's first pool (main scheduler), its second pool, or an unrelated pool */
    int w = nondet_int(); VR_ASSUME(w >= 0 && w <= 2 && (w != 1 || n == 2));
    ABTI_pool *home = w == 0 ? &P0 : w == 1 ? &P1 : &POTHER;
    YS.thread.type = ABTI_THREAD_TYPE_THREAD | ABTI_THREAD_TYPE_YIELDABLE | ABTI_THREAD_TYPE_NAMED; YS.thread.p_pool = home;
    int user_unit = !home->is_builtin;
    if (user_unit) YS.thread.unit = (ABT_unit)&UNITOBJ; else ABTI_unit_init_builtin(&YS.thread);
    ABTI_sched_free(&G, NULL, ps, force ? ABT_TRUE : ABT_FALSE);
    VR_ASSERT(thread_frees == 1, "the scheduler's ULT is freed exactly once");
    VR_ASSERT(unit_frees == (user_unit ? 1 : 0) && !bad_free, "the ULT's unit is handed back exactly once, to its own pool, while that pool is alive (free_unit never sees a freed pool)");
    VR_ASSERT(pool_frees[0] == ((force || (P0.automatic && !shared0)) ? 1 : 0), "pool 0 is freed iff it is automatic and no other scheduler uses it (or the free is forced)");
    if (n == 2) VR_ASSERT(pool_frees[1] == ((force || (P1.automatic && !shared1)) ? 1 : 0), "pool 1 likewise"); else VR_ASSERT(pool_frees[1] == 0, "a pool beyond num_pools is not touched");
    VR_ASSERT(pool_frees[2] == 0 && POTHER.num_scheds.val == 1, "an unrelated pool is not touched");
    if (user_unit && w == 0 && pool_frees[0] == 1) VR_WITNESS("main scheduler's ULT lived in the scheduler's first, user-defined, automatic pool");
    if (!user_unit) VR_WITNESS("built-in unit: nothing to hand back");
    return 0;
}
