/* C05-O1 / C19-O2: ABT_cond_wait (or ABT_cond_timedwait with -DTIMED) as the focus under preemption-point scheduling.
 * Queue shape: optionally one waiter N1 AHEAD of the focus (pre-queued: blocked ULT1 or an external thread's dummy),
 * optionally one waiter N2 enqueuing BEHIND it at a solver-chosen point (ULT2, external dummy, or a TIMED dummy that may
 * also time out at a solver-chosen point).  Environment (external-thread agent T): ABT_cond_signal / ABT_cond_broadcast
 * (complete real calls).  Contention on the mutex itself is C04's subject and is not part of this scenario.
 * Other waiters' enqueue/timeout steps are harness models of the same list discipline (their stack frames cannot live
 * on the single C stack); every operation of the FOCUS and every signal/broadcast is the real code. */
#include "vr_hooks.h"
#include "abti.h"
#define VR_CLOCK_FREE 2
#include "stub_time.h"
#include "world.h"
#include "stub_io.h"

static ABTI_mutex M;
static ABTI_cond CV;
static ABTI_thread D1, D2;                 /* dummies of other non-yieldable waiters */
static int a1, k2;                          /* kind of N1 (0 none,1 ULT1,2 ext dummy), kind of N2 (1 ULT2, 2 ext dummy, 3 timed dummy) */
static int n2_state;                        /* 0 not yet enqueued, 1 queued, 2 gone (woken or timed out) */
static double f_deadline = 1.0e18;
static int t_holds, t_pc, sigs_left = 2, f_sig, f_enq_seen, n1_woken, n2_woken, total_wakeops, lost_signal, bad_signal, holders;
static int f_done;
#if FOCUS_EXT
#define AGENT_A (-1)
#define AGENT_T 1        /* the signaller runs as ULT1's stream ... but ULT1 may be N1, so use ES2 when N1 is ULT1 */
#else
#define AGENT_A 0
#define AGENT_T (-1)
#endif
static ABTI_thread *n1_ptr(void) { return a1 == 1 ? &ULT1.thread : &D1; }
static ABTI_thread *n2_ptr(void) { return k2 == 1 ? &ULT2.thread : &D2; }
/* classify the nodes of the real wait-list, head first: 1 = N1, 2 = N2, 0 = the focus' node */
static int snap(int ids[3])
{
    int n = 0; ABTI_thread *p = CV.waitlist.p_head;
    for (int i = 0; i < 3; i++) if (p) { ids[n++] = (a1 && p == n1_ptr()) ? 1 : (n2_state && p == n2_ptr()) ? 2 : 0; p = p->p_next; }
    __CPROVER_assert(p == NULL, "wait-list longer than the number of waiters");
    return n;
}
static void note_woken(int id) { if (id == 0) f_sig = 1; else if (id == 1) n1_woken = 1; else { n2_woken = 1; n2_state = 2; } }
static void do_signal(int bcast)
{
    int ids[3], ids2[3]; int n = snap(ids);
    int f_in = 0; for (int i = 0; i < 3; i++) if (i < n && ids[i] == 0) f_in = 1;
#ifdef TIMED
    /* timed variant: the focus may legitimately have LEFT the list (timed out, not yet re-acquired M) -- but only if some clock
     * reading has reached its deadline.  Before that, a signal issued while M is free must find the focus queued. */
    if (M.lock.val.val == 0 && !f_in && !f_sig && !f_done && vr_now < f_deadline) lost_signal = 1;
#else
    /* nobody but the focus ever takes M here, so "M is free" means: the focus has released it inside its wait and has not
     * re-acquired it yet.  A signal issued at such a moment (e.g. by a caller that acquired and released M meanwhile) must
     * find the focus queued (atomic release-and-wait) unless it was already woken. */
    if (M.lock.val.val == 0 && !f_in && !f_sig && !f_done) lost_signal = 1;
#endif   /* T took the mutex after the focus released it, yet the focus is not waiting */
    if (bcast) ABT_cond_broadcast((ABT_cond)&CV); else ABT_cond_signal((ABT_cond)&CV);
    total_wakeops++;
    int m = snap(ids2);
    if (bcast) { if (m != 0) bad_signal = 1; for (int i = 0; i < 3; i++) if (i < n) note_woken(ids[i]); }
    else {
        if (m != (n ? n - 1 : 0)) bad_signal = 1;                                   /* exactly one waiter (none if none) */
        for (int i = 0; i < 2; i++) if (i < m && ids2[i] != ids[i + 1]) bad_signal = 1;   /* ... the head; the rest keep their order */
        if (n) note_woken(ids[0]);
    }
    if (m == 0 && CV.waitlist.p_tail != NULL) bad_signal = 1;
}
static void env_step(void)
{
    int who = nondet_int();
    vr_env_noblock = 1;   /* every environment operation of this scenario is non-blocking: blocking paths inside them are pruned */
    as_agent(AGENT_T);
    if (who == 1 && sigs_left > 0) { sigs_left--; do_signal(0); }
    else if (who == 2 && sigs_left > 0) { sigs_left--; do_signal(1); }
    else if (who == 5 && n2_state == 0 && k2 != 0 && CV.lock.val.val == 0 && CV.waitlist.p_head != NULL && !f_done) {
        /* N2 enqueues behind (model of the enqueue step of wait / timedwait of another caller) */
        ABTI_thread *t = n2_ptr(); t->p_next = NULL;
        if (k2 == 3) t->p_prev = CV.waitlist.p_tail;            /* timed waiters maintain p_prev, the others leave garbage */
        CV.waitlist.p_tail->p_next = t; CV.waitlist.p_tail = t; n2_state = 1;
    } else if (who == 6 && k2 == 3 && n2_state == 1 && D2.state.val != ABT_THREAD_STATE_READY && CV.lock.val.val == 0) {
        /* N2 (timed) times out and unlinks itself: model of the same unlink discipline */
        if (CV.waitlist.p_head == &D2) { CV.waitlist.p_head = D2.p_next; if (!D2.p_next) CV.waitlist.p_tail = NULL; }
        else { D2.p_prev->p_next = D2.p_next; if (D2.p_next) D2.p_next->p_prev = D2.p_prev; else CV.waitlist.p_tail = D2.p_prev; }
        n2_state = 2;
    }
    vr_env_noblock = 0;
}
static void vr_after_switch(int k)
{
    /* the focus ULT yielded (timed wait poll loop) or suspended: other agents may act meanwhile */
    vr_depth++; if (nondet_bool()) env_step(); vr_depth--; as_agent(k);
    world_wait_and_resume(k);
}
static void vr_stuck(const char *where)
{
    __CPROVER_assert(!f_sig || f_done, "lost wakeup: the waiter was signalled but still sleeps");
    __CPROVER_assert(!lost_signal, "lost signal: a signaller that acquired the mutex after the waiter released it found no waiter");
    if (f_done) __CPROVER_assert(!(M.lock.val.val == 0), "waiter stuck re-acquiring a free mutex");
}

int main(void)
{
    world_init();
    ABTI_mutex_init(&M); ABTI_cond_init(&CV);
    /* plain or recursive mutex (held once: nesting level 0).  Only for a ULT focus: the model has ONE thread-local slot for all
     * external threads, so two external agents would share an owner id (in reality each pthread has its own) */
#if FOCUS_EXT
    int rec = 0;
#else
    int rec = nondet_bool(); if (rec) M.attrs = ABTI_MUTEX_ATTR_RECURSIVE;
#endif
#ifdef A1
    a1 = A1;                        /* one obligation per kind of the waiter ahead (none / blocked ULT / external): keeps each solver run small */
#else
    a1 = nondet_int(); VR_ASSUME(a1 >= 0 && a1 <= 2);
#endif
    k2 = nondet_int(); VR_ASSUME(k2 >= 0 && k2 <= 3);
#if FOCUS_EXT
    VR_ASSUME(a1 != 1);            /* ES1 is the signaller's identity in this variant */
#endif
    D1.type = D2.type = ABTI_THREAD_TYPE_EXT; D1.state.val = D2.state.val = ABT_THREAD_STATE_BLOCKED; D1.p_next = D2.p_next = NULL;
    D1.p_prev = NULL; D2.p_prev = &D1;   /* stale values */
    if (a1) {   /* N1 already waits on CV (with M) */
        ABTI_thread *t = n1_ptr(); t->p_next = NULL; CV.waitlist.p_head = CV.waitlist.p_tail = t; CV.p_waiter_mutex = &M;
        if (a1 == 1) { ULT1.thread.state.val = ABT_THREAD_STATE_BLOCKED; PL1.num_blocked.val = 1; ES1.p_thread = &SCHED1.thread; }
    }
    if (k2 == 1) { ULT2.thread.state.val = ABT_THREAD_STATE_BLOCKED; PL2.num_blocked.val = 1; ES2.p_thread = &SCHED2.thread; }
    /* the focus holds M (monitor discipline) */
    as_agent(AGENT_A);
    { int r = ABT_mutex_trylock((ABT_mutex)&M); VR_ASSUME(r == ABT_SUCCESS); holders = 1; }
    vr_in_init = 0;
#ifdef TIMED
    struct timespec ts; ts.tv_sec = nondet_int(); ts.tv_nsec = 0; VR_ASSUME(ts.tv_sec >= 0 && ts.tv_sec <= 1000000); f_deadline = (double)ts.tv_sec;
    double deadline = (double)ts.tv_sec;
    holders--;   /* the wait releases M on our behalf */
    int r = ABT_cond_timedwait((ABT_cond)&CV, (ABT_mutex)&M, &ts);
    f_done = 1;
    VR_ASSERT(r == ABT_SUCCESS || r == ABT_ERR_COND_TIMEDOUT, "timedwait returns SUCCESS or TIMEDOUT");
    if (r == ABT_ERR_COND_TIMEDOUT) {
        VR_ASSERT(vr_now >= deadline, "TIMEDOUT only after a clock reading at or past the absolute deadline");
        VR_ASSERT(!f_sig, "TIMEDOUT only if the caller was not signalled (a signalled waiter must report SUCCESS, it consumed the signal)");
#if !defined(A1) || A1 != 0
        if (a1 && k2 == 3 && n2_state == 1) VR_WITNESS("timed out in the MIDDLE of the queue");
#endif
#if !defined(A1) || A1 == 0
        if (!a1 && n2_state == 1) VR_WITNESS("timed out at the HEAD with a waiter behind");
#endif
#if !defined(A1) || A1 != 0
        if (a1 && n2_state != 1 && !n1_woken) VR_WITNESS("timed out at the TAIL");
#endif
    } else {
        VR_ASSERT(f_sig, "SUCCESS only if the caller was signalled (no spurious wakeup)");
        VR_WITNESS("timed wait signalled");
    }
#else
    holders--;
    int r = ABT_cond_wait((ABT_cond)&CV, (ABT_mutex)&M);
    f_done = 1;
    VR_ASSERT(r == ABT_SUCCESS, "wait succeeds");
    VR_ASSERT(f_sig, "no spurious wakeup: wait returns only after a signal/broadcast woke this waiter");
#if !defined(A1) || A1 != 0
    if (a1 && total_wakeops >= 2) VR_WITNESS("woken by the second signal, behind another waiter");
#endif
#if !defined(A1) || A1 == 0
    if (!a1) VR_WITNESS("woken as the head");
#endif
#endif
    VR_ASSERT(holders == 0, "nobody else holds the mutex when the wait returns");
    holders++;
    VR_ASSERT(M.lock.val.val != 0, "the waiter returns holding the mutex");
#if !FOCUS_EXT
    if (rec) { VR_ASSERT(M.owner_id == ABTI_self_get_thread_id(lp_ABTI_local) && M.nesting_cnt == 0, "recursive mutex: the waiter returns as the OWNER of the mutex at nesting level 0 (its own nested lock / unlock work)"); VR_WITNESS("waited with a recursive mutex"); }
#endif
    VR_ASSERT(!bad_signal, "signal wakes exactly the head (none if none), broadcast wakes all: list updated accordingly");
    VR_ASSERT(!lost_signal, "a signal issued by a caller that acquired the mutex after the waiter released it finds the waiter queued");
    VR_ASSERT(CV.lock.val.val == 0, "cond lock released");
    /* the queue left behind is exactly the other waiters that were neither woken nor timed out, in order, well linked */
    {
        int ids[3]; int n = snap(ids); int e = 0;
        int exp1 = a1 && !n1_woken, exp2 = (n2_state == 1);
        VR_ASSERT(n == exp1 + exp2, "remaining queue holds exactly the other still-waiting callers");
        if (exp1) { VR_ASSERT(ids[e] == 1, "N1 still first"); e++; }
        if (exp2) { VR_ASSERT(ids[e] == 2, "N2 still queued"); if (k2 == 3 && e > 0) VR_ASSERT(D2.p_prev == n1_ptr(), "timed waiter's p_prev names its predecessor (needed for its own timeout)"); }
        VR_ASSERT(n == 0 ? CV.waitlist.p_tail == NULL : CV.waitlist.p_tail == (exp2 ? n2_ptr() : n1_ptr()), "tail pointer correct");
        /* a later signal wakes the head of what remains: the finished waiter consumes nothing */
        if (n > 0 && sigs_left > 0) { vr_in_init = 1; /* no further environment steps: this is the epilogue check */ as_agent(AGENT_T); int before = f_sig; sigs_left--; f_sig = 0; do_signal(0); VR_ASSERT(!f_sig, "a later signal goes to the next waiter, not to the one that already returned"); VR_ASSERT(!bad_signal, "the later signal wakes exactly the head of the remaining queue"); f_sig = before; as_agent(AGENT_A); 
#if !defined(A1) || A1 == 0
            VR_WITNESS("later signal delivered to a remaining waiter");
#endif
        }
    }
#if !FOCUS_EXT
    VR_ASSERT(PL0.num_blocked.val == 0, "blocked counter of the waiter's pool balanced");
#endif
    return 0;
}
