/* C10-O1: reader-writer lock as a monitor: one real ABT_rwlock_rdlock / wrlock / unlock from an ARBITRARY consistent
 * state (reader_count r any size_t, write_flag w, never both), with 0..2 lockers already waiting on the internal
 * condition variable.  Whenever the caller blocks, the switch model lets "the rest of the world" act: the monitor state
 * is havocked to any consistent state and a real ABT_cond_broadcast wakes the caller, which then re-checks the real
 * condition (classical monitor proof step: valid for any number of other threads).  The wait loop is cut after two
 * rounds by an unwinding assumption: each round starts from an arbitrary consistent state, so more rounds add nothing. */
#include "vr_hooks.h"
#include "abti.h"
#include "world.h"
#include "stub_io.h"
static ABTI_rwlock RW;
static ABTI_thread D1;
static size_t r_seen; static int w_seen, waits;
/* the current holder (a writer, or one of the readers) may perform its complete real ABT_rwlock_unlock at any atomic instruction of
 * the focus at which the monitor mutex is free -- in particular in the window in which the focus has released the mutex but is
 * not yet on the wait-list (the real broadcast takes the condition variable's lock, which the focus holds there) */
static int env_unlocked;
static void env_step(void)
{
#if OP != 2
    if (env_unlocked || RW.mutex.lock.val.val != 0 || !(RW.write_flag || RW.reader_count > 0) || !nondet_bool()) return;
    env_unlocked = 1; vr_env_noblock = 1; as_agent(-1);
    int rc = ABT_rwlock_unlock((ABT_rwlock)&RW);
    __CPROVER_assert(rc == ABT_SUCCESS, "holder's unlock succeeds");
    vr_env_noblock = 0; as_agent(0);
    r_seen = RW.reader_count; w_seen = RW.write_flag;
#endif
}
static void vr_stuck(const char *w) { __CPROVER_assert(0, "monitor step: no stuck state expected"); }
static void vr_after_switch(int k)
{
    /* the caller is parked on the rwlock's condition variable with the monitor mutex released */
    __CPROVER_assert(RW.mutex.lock.val.val == 0, "a blocked locker has released the monitor mutex");
    waits++;
#if OP == 0
    __CPROVER_assert(!(env_unlocked && RW.write_flag == 0), "lost wake-up: a reader parks although the holder has already unlocked and no writer holds the lock (its unlock ran between the release of the monitor mutex and the enqueue, and woke nobody)");
#elif OP == 1
    __CPROVER_assert(!(env_unlocked && RW.write_flag == 0 && RW.reader_count == 0), "lost wake-up: a writer parks although the last holder has already unlocked (its unlock woke nobody)");
#endif
    size_t r = nondet_size_t(); int w = nondet_bool();
    __CPROVER_assume(!(w && r > 0));
    RW.reader_count = r; RW.write_flag = w; r_seen = r; w_seen = w;     /* other threads acted */
    as_agent(-1); ABT_cond_broadcast((ABT_cond)&RW.cond); as_agent(k); /* an unlock by somebody else broadcasts */
    world_wait_and_resume(k);
}
int main(void)
{
    world_init();
    ABTI_mutex_init(&RW.mutex); ABTI_cond_init(&RW.cond);
    size_t r = nondet_size_t(); int w = nondet_bool();
    VR_ASSUME(!(w && r > 0) && r < (size_t)-1);
    RW.reader_count = r; RW.write_flag = w;
    VR_ASSERT(RW.reader_count == r && RW.write_flag == w, "the counters can represent every number of outstanding holds");
    r_seen = r; w_seen = w;
    int nw = nondet_int(); VR_ASSUME(nw >= 0 && nw <= 2);     /* lockers already waiting: blocked ULT1, external dummy D1 */
    if (nw >= 1) { ULT1.thread.state.val = ABT_THREAD_STATE_BLOCKED; PL1.num_blocked.val = 1; ES1.p_thread = &SCHED1.thread; ULT1.thread.p_next = NULL; RW.cond.waitlist.p_head = RW.cond.waitlist.p_tail = &ULT1.thread; RW.cond.p_waiter_mutex = &RW.mutex; }
    if (nw == 2) { D1.type = ABTI_THREAD_TYPE_EXT; D1.state.val = ABT_THREAD_STATE_BLOCKED; D1.p_next = NULL; ULT1.thread.p_next = &D1; RW.cond.waitlist.p_tail = &D1; }
    VR_ASSUME(nw == 0 || w || r > 0);   /* somebody waits only if somebody holds */
    vr_in_init = 0;
    as_agent(0);
#if OP == 0
    int rc = ABT_rwlock_rdlock((ABT_rwlock)&RW);
    VR_ASSERT(rc == ABT_SUCCESS, "rdlock succeeds");
    VR_ASSERT(RW.write_flag == 0, "a reader acquires only while no writer holds the lock");
    VR_ASSERT(RW.reader_count == r_seen + 1, "the reader is counted exactly once");
    if (!w) VR_ASSERT(waits == 0, "a reader is not blocked when only readers (or nobody) hold the lock");
    if (w && waits == 2) VR_WITNESS("reader waited twice (writer still inside after the first wake-up)");
    if (!w && r > 70000) VR_WITNESS("reader joins many readers without blocking");
#elif OP == 1
    int rc = ABT_rwlock_wrlock((ABT_rwlock)&RW);
    VR_ASSERT(rc == ABT_SUCCESS, "wrlock succeeds");
    VR_ASSERT(RW.write_flag == 1 && RW.reader_count == 0, "a writer acquires only when no reader and no other writer holds the lock");
    VR_ASSERT(w_seen == 0 && r_seen == 0, "... as observed under the monitor mutex at the moment of acquisition");
    if (!w && r == 0) VR_ASSERT(waits == 0, "a writer is not blocked on a free lock");
    if (r > 0 && waits >= 1) VR_WITNESS("writer waited for readers");
    if (!w && r == 0) VR_WITNESS("writer took a free lock");
#else
    VR_ASSUME(w || r > 0);            /* the caller holds the lock (as writer if w, else as one of the readers) */
    int rc = ABT_rwlock_unlock((ABT_rwlock)&RW);
    VR_ASSERT(rc == ABT_SUCCESS, "unlock succeeds");
    if (w) VR_ASSERT(RW.write_flag == 0 && RW.reader_count == 0, "writer unlock clears the write flag");
    else VR_ASSERT(RW.write_flag == 0 && RW.reader_count == r - 1, "reader unlock removes exactly one read hold");
    VR_ASSERT(RW.cond.waitlist.p_head == NULL && RW.cond.waitlist.p_tail == NULL, "unlock wakes EVERY blocked locker (readers may share; all re-check the condition)");
    if (nw >= 1) VR_ASSERT(sp_in[1] && ULT1.thread.state.val == ABT_THREAD_STATE_READY, "a blocked ULT locker is made ready");
    if (nw == 2) { VR_ASSERT(D1.state.val == ABT_THREAD_STATE_READY, "a blocked external locker is made ready"); if (w) VR_WITNESS("writer unlock with two blocked lockers"); }
    if (!w && r == 1) VR_WITNESS("last reader unlocks");
#endif
    VR_ASSERT(RW.mutex.lock.val.val == 0 && RW.cond.lock.val.val == 0, "monitor mutex and cond lock released");
    VR_ASSERT(PL0.num_blocked.val == 0, "blocked counter balanced");
    return 0;
}
