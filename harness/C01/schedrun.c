/* C01-O4 / C06-O3: the real scheduler loop (sched_run of sched/basic.c) over one pool.
 * Initially the pool may hold a tasklet; a ULT of this pool may be BLOCKED (counted) and is resumed by another stream at a
 * solver-chosen point (complete real ABT_thread_resume); the join request (finish) is raised at a solver-chosen event check.
 * When the scheduler switches to the ULT, the ULT "runs to completion" (ghost: TERMINATED).  Required: sched_run returns
 * only after the finish request, with the pool empty, nothing blocked and EVERY unit run exactly once; no unit runs twice. */
#define VR_OWN_NORETURN_MODEL
#include "vr_hooks.h"
#define ABTI_ythread_schedule vr_real_ythread_schedule      /* the real inline function, under another name ... */
#include "abti.h"
#undef ABTI_ythread_schedule
#include "world.h"
/* ... and an identity wrapper that case-splits on WHICH unit was popped, so that each copy of the real scheduler step sees a
 * concrete descriptor (otherwise cbmc explores every unit-type branch for an "unknown" object: 35 GB, no verdict). */
static inline void ABTI_ythread_schedule(ABTI_global *g, ABTI_xstream **pp, ABTI_thread *t)
{
    if (t == &ULT1.thread) vr_real_ythread_schedule(g, pp, &ULT1.thread);
    else if (t == &ULT2.thread) vr_real_ythread_schedule(g, pp, &ULT2.thread);
    else __CPROVER_assert(0, "the scheduler pops only units that were pushed");
}
#include "stub_io.h"
#include "stub_time.h"
#include "sched/basic.c"
static ABTI_sched SCH; static ABT_pool SPOOLS[1]; static sched_data SD;
static int have_task, have_ult, task_runs, ult_runs, resumed, finish_raised, events;
static void tfn(void *a) { task_runs++; }
static void env_step(void)
{
    vr_env_noblock = 1;
    if (have_ult && !resumed && ULT2.thread.state.val == ABT_THREAD_STATE_BLOCKED && nondet_bool()) { resumed = 1; as_agent(1); int r = ABT_thread_resume((ABT_thread)&ULT2); __CPROVER_assert(r == ABT_SUCCESS, "resume succeeds"); as_agent(0); }
    vr_env_noblock = 0;
}
void vr_poolq(void) { env_step(); }
static void vr_after_switch(int k) {}
static void vr_stuck(const char *w) {}
/* stream.c's event check: here the place where the pending ABT_xstream_join becomes visible */
void ABTI_xstream_check_events(ABTI_xstream *x, ABTI_sched *s) { events++; env_step(); if (!finish_raised && nondet_bool()) { finish_raised = 1; ABTI_sched_finish(s); } }
/* the scheduler switches to the resumed ULT: it runs to completion and comes back */
void switch_fcontext(fcontext_t *n, fcontext_t *o)
{
    __CPROVER_assert(n == &ULT2.ctx.ctx && ULT2.thread.state.val == ABT_THREAD_STATE_RUNNING, "the scheduler runs the popped ULT");
    ult_runs++; ULT2.thread.state.val = ABT_THREAD_STATE_TERMINATED; ES0.p_thread = &SCHED0.thread;
}
void init_and_switch_fcontext(fcontext_t *a, void (*f)(fcontext_t *), void *s, fcontext_t *o) { __CPROVER_assert(0, "not expected"); __CPROVER_assume(0); }
void jump_fcontext(fcontext_t *p) { __CPROVER_assume(0); }
void jump_with_call_fcontext(void *a, void (*f)(void *), fcontext_t *n) { __CPROVER_assume(0); }
void init_and_jump_fcontext(fcontext_t *a, void (*f)(fcontext_t *), void *s) { __CPROVER_assume(0); }
void init_and_switch_with_call_fcontext(void *c, void (*fc)(void *), fcontext_t *n, void (*f)(fcontext_t *), void *s, fcontext_t *o) { __CPROVER_assume(0); }
void init_and_jump_with_call_fcontext(void *c, void (*fc)(void *), fcontext_t *n, void (*f)(fcontext_t *), void *s) { __CPROVER_assume(0); }

int main(void)
{
    world_init();
    ES0.p_thread = &SCHED0.thread; ES0.p_main_sched = &SCH;
    SCH.pools = SPOOLS; SPOOLS[0] = (ABT_pool)&PL0; SCH.num_pools = 1; SCH.used = ABTI_SCHED_MAIN; SCH.request.val = 0; SCH.data = &SD; SCH.p_ythread = &SCHED0;
    SD.event_freq = 1; SD.num_pools = 1; SD.pools = SPOOLS;
    PL0.access = ABT_POOL_ACCESS_MPSC; PL0.num_scheds.val = 1;
    have_task = HAVE_TASK; have_ult = HAVE_ULT;   /* one obligation per combination: keeps the symbolic execution small */
    if (have_task) { ULT1.thread.type = ABTI_THREAD_TYPE_THREAD | ABTI_THREAD_TYPE_NAMED; ULT1.thread.p_pool = &PL0; ULT1.thread.f_thread = tfn; ULT1.thread.state.val = ABT_THREAD_STATE_READY; sp_in[1] = 1; ULT1.thread.is_in_pool.val = 1; ES1.p_thread = &SCHED1.thread; }
    if (have_ult) { ULT2.thread.p_pool = &PL0; ULT2.thread.state.val = ABT_THREAD_STATE_BLOCKED; PL0.num_blocked.val = 1; ULT2.thread.p_last_xstream = &ES0; ES2.p_thread = &SCHED2.thread; }
    ULT0.thread.f_thread = tfn; ULT1.thread.f_thread = tfn; ULT2.thread.f_thread = tfn;   /* one constant target: keeps cbmc's function-pointer case split trivial */
    { static char stk[3][64]; ULT0.ctx.p_stacktop = stk[0] + 64; ULT1.ctx.p_stacktop = stk[1] + 64; ULT2.ctx.p_stacktop = stk[2] + 64; ULT0.ctx.stacksize = ULT1.ctx.stacksize = ULT2.ctx.stacksize = 64; }   /* stacks exist: no lazy allocation */
    sp_in[0] = 0; ULT0.thread.state.val = ABT_THREAD_STATE_TERMINATED;     /* ULT0 plays no role */
    vr_in_init = 0; as_agent(0);
    sched_run((ABT_sched)&SCH);
    VR_ASSERT(finish_raised, "the scheduler loop leaves only after a finish/join request");
    VR_ASSERT(!sp_in[1] && !sp_in[2] && PL0.num_blocked.val == 0, "on return the pool is empty and nothing is blocked");
    VR_ASSERT(task_runs == have_task, "the tasklet ran exactly once (never dropped, never twice)");
    VR_ASSERT(ult_runs == have_ult && (!have_ult || ULT2.thread.state.val == ABT_THREAD_STATE_TERMINATED), "the ULT that was blocked at the time of the join request was resumed, run exactly once and has terminated before the scheduler stops");
#if HAVE_ULT
    if (events >= 2) VR_WITNESS("scheduler outlived the finish request until the late-resumed ULT completed");
#else
    if (events == 1) VR_WITNESS("scheduler without blocked units stops at the first event check after the request");
#endif
    return 0;
}
