/* C01-O5 / C06: the main-scheduler ULT body (thread_main_sched_func, thread.c) around the scheduler's run function.
 * The run function is ANY scheduler that honours the interface (stub): each call may pop and run some of the queued units
 * and may return at any time -- in particular while units are still queued (basic_wait returns after every unit it got from
 * pop_wait; a user-defined scheduler may return whenever it likes) -- and the join/finish request may arrive at any call.
 * Required: the stream's scheduler ULT finishes (the stream terminates) only if it was cancelled, or a finish request is
 * pending AND no unit is left in its pools and none is blocked: otherwise queued units would never run. */
#include "abti.h"
#include "vr.h"
#include "stub_io.h"
#include "thread.c"
ABTI_global *gp_ABTI_global; ABTD_XSTREAM_LOCAL ABTI_local *lp_ABTI_local;
static ABTI_global G; static ABTI_xstream ES; static ABTI_sched S; static ABTI_ythread YS; static ABTI_pool P; static ABT_pool PS[1];
static int queued, blocked, runs_done, calls, finish_set, cancel_set;
/* scheduler replacement (ABT_xstream_set_main_sched from a ULT of this stream): the run function of the OLD scheduler returns with
 * REQ_REPLACE set; the loop installs the new scheduler, releases the old one and only THEN resumes the waiting caller (the caller's
 * ABT_xstream_set_main_sched returns as soon as it is resumed: the old scheduler must be gone and the new one in place by then) */
static ABTI_sched SNEW; static ABTI_ythread WAITER; static ABTI_pool WP; static int replace_req, replaced, old_discarded, waiter_pushes, bad_order;
void ABTI_sched_discard_and_free(ABTI_global *g, ABTI_local *l, ABTI_sched *sc, ABT_bool force) { __CPROVER_assert(sc == &S && sc->p_ythread == NULL, "the replaced scheduler is released without its ULT (which the new scheduler took over)"); old_discarded++; }
static void w_push(ABT_pool p, ABT_unit u, ABT_pool_context c) { waiter_pushes++; if (!old_discarded || ES.p_main_sched != &SNEW || SNEW.used != ABTI_SCHED_MAIN || SNEW.p_ythread != &YS) bad_order = 1; }
static ABT_bool p_is_empty(ABT_pool p) { return queued == 0 ? ABT_TRUE : ABT_FALSE; }
ABTI_local *ABTI_local_get_local_uninlined(void) { return lp_ABTI_local; }
ABT_bool ABTI_sched_has_unit(ABTI_sched *s)
{   /* sched.c's contract for a single-consumer pool (its own code is decided by the C06 stop_* obligations) */
    return (queued > 0 || blocked > 0) ? ABT_TRUE : ABT_FALSE;
}
static void run_stub(ABT_sched s)
{
    calls++;
    /* schedule some of the queued units (each runs to completion; a blocked one may be resumed and queued) */
    int k = nondet_int(); __CPROVER_assume(k >= 0 && k <= queued); queued -= k; runs_done += k;
    if (blocked > 0 && nondet_bool()) { blocked--; queued++; }
#ifndef REPLACE
    if (!finish_set && nondet_bool()) { finish_set = 1; S.request.val |= ABTI_SCHED_REQ_FINISH; }
#endif
    if (!cancel_set && nondet_bool()) { cancel_set = 1; YS.thread.request.val |= ABTI_THREAD_REQ_CANCEL; }
#ifdef REPLACE
    /* (deterministic placement: the first call of the old scheduler's run function returns with the replace request; a solver
     * choice here makes the scheduler pointer symbolic for the rest of the loop -- no verdict in 900 s) */
    if (calls == 1) { replace_req = 1; S.request.val |= ABTI_SCHED_REQ_REPLACE; S.p_replace_sched = &SNEW; S.p_replace_waiter = &WAITER; }
    if (calls == 2 && !finish_set) { finish_set = 1; SNEW.request.val |= ABTI_SCHED_REQ_FINISH; }
#endif
    /* ... and return, possibly with units still queued */
}
int main(void)
{
    gp_ABTI_global = &G; lp_ABTI_local = (ABTI_local *)&ES;
    ES.p_main_sched = &S; ES.p_thread = &YS.thread; S.p_ythread = &YS; S.run = run_stub; S.pools = PS; PS[0] = (ABT_pool)&P; S.num_pools = 1; S.used = ABTI_SCHED_MAIN;
    SNEW.run = run_stub; SNEW.pools = PS; SNEW.num_pools = 1; SNEW.used = ABTI_SCHED_NOT_USED; SNEW.p_ythread = NULL;
    WAITER.thread.type = ABTI_THREAD_TYPE_THREAD | ABTI_THREAD_TYPE_YIELDABLE | ABTI_THREAD_TYPE_NAMED; WAITER.thread.state.val = ABT_THREAD_STATE_BLOCKED; WAITER.thread.p_pool = &WP; ABTI_unit_init_builtin(&WAITER.thread);
    WP.is_builtin = ABT_TRUE; WP.num_blocked.val = 1; WP.required_def.p_push = w_push;
    P.access = ABT_POOL_ACCESS_MPSC; P.num_scheds.val = 1; P.required_def.p_is_empty = p_is_empty;
    queued = nondet_int(); blocked = nondet_int(); __CPROVER_assume(queued >= 0 && queued <= 3 && blocked >= 0 && blocked <= 1);
#ifdef REPLACE
    __CPROVER_assume(queued == 0 && blocked == 0);
#endif
    int total = queued + blocked;
    thread_main_sched_func(NULL);
    VR_ASSERT(cancel_set || finish_set, "the main scheduler finishes only on a cancel or a finish/join request");
    VR_ASSERT(cancel_set || (queued == 0 && blocked == 0), "on a join the stream terminates only after every unit of its pools has run (none queued, none blocked) -- also when the scheduler's run function returned early");
#ifdef REPLACE
    if (replace_req && !cancel_set) { VR_ASSERT(waiter_pushes == 1 && old_discarded == 1 && !bad_order && WAITER.thread.state.val == ABT_THREAD_STATE_READY && WP.num_blocked.val == 0, "scheduler replacement: the caller of ABT_xstream_set_main_sched is resumed exactly once, and only after the new scheduler is installed (MAIN, owning the scheduler ULT) and the old one has been released"); VR_ASSERT(ES.p_main_sched == &SNEW, "the stream continues under the new scheduler"); VR_WITNESS("main scheduler replaced"); }
#endif
#ifndef REPLACE
    if (!cancel_set && total >= 2 && calls >= 2) VR_WITNESS("the run function returned early with units queued and a finish request pending; the loop called it again");
    if (cancel_set && queued > 0) VR_WITNESS("cancel terminates regardless of remaining units");
#endif
    return 0;
}
