/* C01-O1: creation publishes a work unit exactly once.
 * ABT_thread_create / ABT_task_create (named or unnamed, default attributes) from an external thread into a pool whose
 * push is a recording stub: exactly one push, of a unit that translates back to the new work unit, which is READY and
 * carries exactly the function and argument given; the returned handle (if requested) is that unit.
 * Memory: cbmc's allocator (descriptor [+stack] from malloc on the external-thread path). */
#include "abti.h"
#ifndef VR_STK
#define VR_STK 1024
#endif
#include "vr.h"
#include "stub_io.h"
#include "thread.c"
ABTI_global *gp_ABTI_global;
ABTD_XSTREAM_LOCAL ABTI_local *lp_ABTI_local;
static ABTI_global G;
static ABTI_pool P;
static int pushes; static ABT_unit pushed_unit; static ABT_pool_context pushed_ctx;
/* the push PUBLISHES the unit: another stream may pop and run it at once.  In the "ran at push" case (solver's choice) the unit has
 * already started (RUNNING), created its key table and received a request when the creator continues: the creator must not write
 * to the descriptor any more (a late store would wipe what the running unit did). */
static int ran_at_push; static char KT_SENTINEL[8];
static void rec_push(ABT_pool pool, ABT_unit unit, ABT_pool_context c)
{
    pushes++; pushed_unit = unit; pushed_ctx = c; __CPROVER_assert(pool == (ABT_pool)&P, "pushed to the requested pool");
    if (ran_at_push && ABTI_unit_is_builtin(unit)) { ABTI_thread *t = ABTI_unit_get_thread_from_builtin_unit(unit); __CPROVER_assert(t->state.val == ABT_THREAD_STATE_READY && t->request.val == 0 && t->p_keytable.val == NULL, "a unit is completely initialised when it is published"); t->state.val = ABT_THREAD_STATE_RUNNING; t->p_keytable.val = KT_SENTINEL; t->request.val = ABTI_THREAD_REQ_CANCEL; }
}
int mprotect(void *a, size_t l, int p) { return 0; }
static void fn(void *a) {}
static char ARGOBJ;
int ABTI_sched_get_migration_pool(ABTI_sched *s, ABTI_pool *src, ABTI_pool **pp) { __CPROVER_assert(0, "not part of this scenario"); return ABT_ERR_OTHER; }
void ABTD_ythread_func_wrapper(ABTD_ythread_context *p) { __CPROVER_assume(0); }

int main(void)
{
    gp_ABTI_global = &G; G.thread_stacksize = VR_STK; G.stack_guard_kind = ABTI_STACK_GUARD_NONE; G.sys_page_size = 4096; G.key_table_size = 4;
    P.is_builtin = ABT_TRUE; P.access = ABT_POOL_ACCESS_MPMC; P.required_def.p_push = rec_push;
    int named = nondet_bool(); ABT_thread h = (ABT_thread)&G;
    ran_at_push = nondet_bool();
    int r;
#if KIND == 0
    r = ABT_thread_create((ABT_pool)&P, fn, &ARGOBJ, ABT_THREAD_ATTR_NULL, named ? &h : NULL);
#else
    r = ABT_task_create((ABT_pool)&P, fn, &ARGOBJ, named ? &h : NULL);
#endif
    VR_ASSERT(r == ABT_SUCCESS, "creation succeeds");
    VR_ASSERT(pushes == 1, "the new work unit is pushed to the pool exactly once");
    VR_ASSERT(ABTI_unit_is_builtin(pushed_unit), "built-in pools use the tagged built-in unit");
    ABTI_thread *t = ABTI_unit_get_thread_from_builtin_unit(pushed_unit);
    VR_ASSERT(t->f_thread == fn && t->p_arg == (void *)&ARGOBJ, "the queued unit carries exactly the function and argument it was given");
    if (!ran_at_push) VR_ASSERT(t->state.val == ABT_THREAD_STATE_READY && t->request.val == 0 && t->p_pool == &P && t->unit == pushed_unit, "the queued unit is READY, without requests, associated with the pool");
    else { VR_ASSERT(t->state.val == ABT_THREAD_STATE_RUNNING && t->p_keytable.val == (void *)KT_SENTINEL && t->request.val == ABTI_THREAD_REQ_CANCEL, "nothing is written to the descriptor after the unit was published (it may already run on another stream)"); VR_WITNESS("the unit ran on another stream before the creating call returned"); }
    VR_ASSERT(((t->type & ABTI_THREAD_TYPE_NAMED) != 0) == (named != 0), "named iff a handle was requested (unnamed units free themselves)");
    VR_ASSERT(((t->type & ABTI_THREAD_TYPE_YIELDABLE) != 0) == (KIND == 0), "ULTs are yieldable, tasklets are not");
    if (named) VR_ASSERT(h == (ABT_thread)t, "the returned handle is the queued unit"); else VR_ASSERT(h == (ABT_thread)&G, "no handle written for an unnamed unit");
#if KIND == 0
    { ABTI_ythread *y = (ABTI_ythread *)t; VR_ASSERT(y->ctx.ctx.dummy == NULL && y->ctx.p_link.val.val == NULL && y->ctx.p_stacktop != NULL && y->ctx.stacksize >= VR_STK, "fresh ULT context: never started, no joiner, a stack of at least the default size"); }
#endif
    if (named) VR_WITNESS("named unit created"); else VR_WITNESS("unnamed unit created");
    return 0;
}
