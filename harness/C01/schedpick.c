/* C01 / C06: which pool the predefined multi-pool schedulers take their next unit from (sched_run of sched/randws.c,
 * sched/prio.c, sched/basic.c: -DSCHED_C).  The scheduler has N pools (N concrete per obligation, 2..4); exactly one unit sits
 * in pool j (j symbolic, any of the N pools); the stop decision says "stop" only once nothing is left (as the real one does: C06).
 * Pools, the scheduling step, the event check and the stop decision are harness models (each decided elsewhere: C07, C12, C06);
 * the real loop decides WHICH pool is asked, in which order and whether a popped unit is handed to the scheduling step.
 * Required: the unit is popped and scheduled exactly once, whatever pool it is in, within a bounded number of rounds -- a pool
 * that is never asked strands its units (the stream never terminates, or terminates without running them).
 * The random victim selection of RANDWS draws from rand_r: the model returns CONSECUTIVE integers from a symbolic start, the
 * weakest equidistribution one can ask of a generator; any selection of the form "rand modulo the number of victims" then
 * reaches every victim within as many rounds as there are victims. */
#include <stdlib.h>
static unsigned vr_rand_next;
static int vr_rand_r(unsigned *seed) { return (int)(vr_rand_next++ & 0x3fffffff); }
#define rand_r(s) vr_rand_r(s)
#define ABTI_pool_pop vr_real_pool_pop
#define ABTI_ythread_schedule vr_real_ythread_schedule
#include "abti.h"
#undef ABTI_pool_pop
#undef ABTI_ythread_schedule
#include "vr.h"
#include "stub_io.h"
#include "stub_time.h"
#ifndef NPOOLS
#define NPOOLS 3
#endif
static ABTI_pool PL[4]; static ABT_pool PH[4]; static ABTI_thread U;
static int where = -1, asked[4], pops, runs, rounds;
static int pidx(ABTI_pool *p) { return p == &PL[0] ? 0 : p == &PL[1] ? 1 : p == &PL[2] ? 2 : p == &PL[3] ? 3 : -1; }
static inline ABT_thread ABTI_pool_pop(ABTI_pool *p_pool, ABT_pool_context ctx)
{
    int i = pidx(p_pool); __CPROVER_assert(i >= 0 && i < NPOOLS, "the scheduler pops only from its own pools");
    asked[i]++;
    if (i == where) { where = -1; pops++; return (ABT_thread)&U; }
    return ABT_THREAD_NULL;
}
static inline void ABTI_ythread_schedule(ABTI_global *g, ABTI_xstream **pp, ABTI_thread *t)
{
    __CPROVER_assert(t == &U, "the unit handed to the scheduling step is the unit that was popped"); runs++;
}
ABTI_global *gp_ABTI_global; ABTD_XSTREAM_LOCAL ABTI_local *lp_ABTI_local;
static ABTI_global G; static ABTI_xstream ES;
void ABTI_xstream_check_events(ABTI_xstream *x, ABTI_sched *s) { rounds++; }
#define MAXROUNDS (2 * NPOOLS + 2)
ABT_bool ABTI_sched_has_to_stop(ABTI_sched *s)
{
    if (where < 0) return ABT_TRUE;                    /* nothing left in the pools: the real decision says stop (join pending) */
    __CPROVER_assert(rounds < MAXROUNDS, "the scheduler asks every one of its pools within a bounded number of rounds: a unit queued in any of them is eventually popped");
    if (rounds >= MAXROUNDS) __CPROVER_assume(0);
    return ABT_FALSE;
}
#include SCHED_C
static ABTI_sched SCH; static sched_data SD;
int main(void)
{
    gp_ABTI_global = &G; lp_ABTI_local = (ABTI_local *)&ES; ES.p_main_sched = &SCH;
    for (int i = 0; i < 4; i++) PH[i] = (ABT_pool)&PL[i];
    SCH.pools = PH; SCH.num_pools = NPOOLS; SCH.used = ABTI_SCHED_MAIN; SCH.data = &SD;
    SD.event_freq = 1; SD.num_pools = NPOOLS; SD.pools = PH;
    int j = nondet_int(); VR_ASSUME(j >= 0 && j < NPOOLS); where = j;
    vr_rand_next = nondet_u32(); VR_ASSUME(vr_rand_next <= 100000);
    sched_run((ABT_sched)&SCH);
    VR_ASSERT(pops == 1 && runs == 1 && where < 0, "the queued unit was popped and scheduled exactly once, whichever pool held it");
    if (j == NPOOLS - 1) VR_WITNESS("the unit sat in the scheduler's LAST pool");
    if (j == 0) VR_WITNESS("the unit sat in the scheduler's first pool");
    return 0;
}
