/* C17-O1: rank management, one inductive step from ANY valid stream list of 0..3 live streams.
 * Inv: doubly linked list sorted by strictly increasing rank >= 0, head is the primary stream with rank 0 (ranks are
 * non-negative and the primary stream's rank cannot be changed, so nothing is ever inserted before it),
 * num_xstreams == length, lock free. */
#include "abti.h"
#include "vr.h"
#include "stub_pthread.h"
#include "stub_io.h"
#include "stream.c"
ABTI_global *gp_ABTI_global;
static ABTI_global G;
static ABTI_xstream X0, X1, X2, NEW;
static ABTI_xstream *const XP[3] = { &X0, &X1, &X2 };
static int n;
static int rk[3];
/* stale link of a stream that is not in the list: NULL or a pointer to some stream object */
static ABTI_xstream *stale(void) { int c = nondet_int(); return c == 0 ? NULL : c == 1 ? &X0 : c == 2 ? &X1 : c == 3 ? &X2 : &NEW; }

static void build(void)
{
    n = nondet_int(); VR_ASSUME(n >= 0 && n <= 3);
    for (int i = 0; i < 3; i++) { rk[i] = nondet_int(); VR_ASSUME(rk[i] >= 0 && rk[i] < 2147483647); }
    VR_ASSUME(rk[0] == 0 && rk[0] < rk[1] && rk[1] < rk[2]);
    for (int i = 0; i < 3; i++) {
        XP[i]->rank = rk[i];
        XP[i]->type = i == 0 ? ABTI_XSTREAM_TYPE_PRIMARY : ABTI_XSTREAM_TYPE_SECONDARY;
        if (i < n) { XP[i]->p_prev = i ? XP[i - 1] : NULL; XP[i]->p_next = (i + 1 < n) ? XP[i + 1] : NULL; }
        else { XP[i]->p_prev = stale(); XP[i]->p_next = stale(); } /* not in the list: garbage links */
    }
    NEW.p_prev = stale(); NEW.p_next = stale(); NEW.rank = nondet_int(); NEW.type = ABTI_XSTREAM_TYPE_SECONDARY;
    G.p_xstream_head = n ? &X0 : NULL;
    G.num_xstreams = n;
    G.max_xstreams = nondet_int(); VR_ASSUME(G.max_xstreams >= 1 && (n == 0 || G.max_xstreams > rk[n - 1]));
    G.xstream_list_lock.val.val = 0;
    gp_ABTI_global = &G;
}
/* walk the real list and check it against the expected set of live streams (one flag per object; no arrays) */
static void check_list(int l0, int l1, int l2, int lnew)
{
    int m = l0 + l1 + l2 + lnew;
    VR_ASSERT(G.num_xstreams == m, "ABT_xstream_get_num == number of live streams");
    int num = -1; ABT_xstream_get_num(&num);
    VR_ASSERT(num == m, "ABT_xstream_get_num reports it");
    VR_ASSERT(G.xstream_list_lock.val.val == 0, "list lock released");
    ABTI_xstream *p = G.p_xstream_head, *prev = NULL;
    int s0 = 0, s1 = 0, s2 = 0, sn = 0;
    for (int i = 0; i < 4; i++) {
        if (i < m) {
            VR_ASSERT(p == &X0 || p == &X1 || p == &X2 || p == &NEW, "list element is a stream object");
            if (p == &X0) s0++; else if (p == &X1) s1++; else if (p == &X2) s2++; else sn++;
            VR_ASSERT(p->p_prev == prev, "p_prev link consistent");
            if (prev) VR_ASSERT(prev->rank < p->rank, "ranks strictly increasing (pairwise distinct)");
            VR_ASSERT(G.max_xstreams > p->rank, "max_xstreams above every live rank");
            prev = p; p = p->p_next;
        }
    }
    VR_ASSERT(p == NULL, "list ends after the last live stream");
    VR_ASSERT(s0 == l0 && s1 == l1 && s2 == l2 && sn == lnew, "list holds exactly the live streams, each once");
}
static int taken(int r) { for (int i = 0; i < 3; i++) if (i < n && rk[i] == r) return 1; return 0; }

int main(void)
{
    build();
#if OP == 0 /* new stream, rank chosen by the runtime (-1) or requested */
    int req = nondet_int(); VR_ASSUME(req >= -1 && req < 2147483647);
    ABT_bool ok = xstream_set_new_rank(&G, &NEW, req);
    if (req == -1) {
        VR_ASSERT(ok == ABT_TRUE, "automatic rank always granted");
        int s = 0; while (taken(s)) s++;          /* smallest unused */
        VR_ASSERT(NEW.rank == s, "a stream created without a rank receives the smallest unused rank");
        if (n == 3 && s == 1) VR_WITNESS("gap filled in a 3-list");
        if (n == 0) VR_WITNESS("first stream");
    } else {
        VR_ASSERT((ok == ABT_TRUE) == !taken(req), "requested rank granted iff no live stream has it");
        if (ok) VR_ASSERT(NEW.rank == req, "granted rank is the requested one");
        if (!ok) VR_WITNESS("requested rank refused");
        if (ok && n == 3 && req > rk[1] && req < rk[2]) VR_WITNESS("inserted in the middle");
    }
    check_list(n > 0, n > 1, n > 2, ok == ABT_TRUE);
#elif OP == 1 /* change the rank of a live non-primary stream */
    int k = nondet_int(), req = nondet_int();
    VR_ASSUME(k >= 1 && k < 3 && k < n && req >= 0 && req < 2147483647);
    int old = rk[k];
    ABT_bool ok = xstream_change_rank(&G, XP[k], req);
    VR_ASSERT((ok == ABT_TRUE) == (req == old || !taken(req)), "changed rank granted iff free (or unchanged)");
    VR_ASSERT(XP[k]->rank == (ok ? req : old), "rank updated iff granted");
    if (ok && n == 3 && k == 1 && req > rk[2]) VR_WITNESS("middle stream moved to the end");
    if (ok && n == 3 && k == 2 && req < rk[1]) VR_WITNESS("last stream moved to the middle");
    if (!ok) VR_WITNESS("change refused");
    check_list(n > 0, n > 1, n > 2, 0);
#elif OP == 2 /* free: the rank is returned and becomes reusable */
    int k = nondet_int(); VR_ASSUME(k >= 0 && k < 3 && k < n && (k > 0 || n == 1));
    xstream_return_rank(&G, XP[k]);
    check_list(n > 0 && k != 0, n > 1 && k != 1, n > 2 && k != 2, 0);
    int freed = rk[k]; rk[k] = -7; /* no longer taken */
    ABT_bool ok = xstream_set_new_rank(&G, &NEW, freed);
    VR_ASSERT(ok == ABT_TRUE && NEW.rank == freed, "a freed stream's rank is reusable");
    if (n == 3 && k == 1) VR_WITNESS("middle stream freed and its rank reused");
    if (n == 1) VR_WITNESS("last stream freed");
#endif
    return 0;
}
