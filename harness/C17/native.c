/* C17-O4: the native-thread state machine of an execution stream (arch/abtd_stream.c): create -> run -> join -> revive -> run
 * -> join -> free.  Two parties share {state, mutex, condition variable}: the native thread (xstream_context_thread_func) and a
 * controller (ABTD_xstream_context_join / revive / free called by another stream).  Assume-guarantee over the real code:
 *  MODE 0  focus = the REAL thread function; the controller is a model of join/revive/free (the protocol the real callers
 *          follow: join before revive/free), acting while the thread's mutex is free: at its lock acquisitions, while it runs the
 *          stream's main function and while it sleeps in pthread_cond_wait (which may also return spuriously).
 *  MODE 1  focus = the REAL controller routines in the order join, [revive, join], free; the native thread is a model of the
 *          thread function's steps, acting at the controller's lock acquisitions and while it sleeps.
 * Required: the stream's main function runs exactly once per create/revive and never after free; join returns only after the
 * current run has finished; nobody sleeps forever: every state change a sleeper waits for is followed by a signal on the
 * condition variable (stuck predicate), spurious wake-ups change nothing; free returns only after the thread has left. */
#include <pthread.h>
#include "abti.h"
#include "vr.h"
#include "stub_io.h"
static int mtx_owner;           /* 0 free, 1 thread, 2 controller */
static int me = 1;              /* who executes real code now */
static int t_token, c_token;    /* wake-up tokens: pthread_cond_signal wakes a party that is BLOCKED on the condition variable at that moment (a signal with no sleeper is lost) */
static int t_sleeping, c_sleeping, t_exited, runs_started, runs_finished, revives, free_req, c_joined, joins_done;
static void env_step(void);
static int in_env;
static void sched_point(void) { if (!in_env && mtx_owner == 0) { in_env = 1; env_step(); in_env = 0; } }
int pthread_mutex_init(pthread_mutex_t *m, const pthread_mutexattr_t *a) { return 0; }
int pthread_mutex_destroy(pthread_mutex_t *m) { return 0; }
int pthread_cond_init(pthread_cond_t *c, const pthread_condattr_t *a) { return 0; }
int pthread_cond_destroy(pthread_cond_t *c) { return 0; }
int pthread_mutex_lock(pthread_mutex_t *m) { sched_point(); __CPROVER_assert(mtx_owner == 0, "mutex free when acquired"); mtx_owner = me; return 0; }
int pthread_mutex_unlock(pthread_mutex_t *m) { __CPROVER_assert(mtx_owner == me, "mutex released by its holder"); mtx_owner = 0; return 0; }
int pthread_cond_signal(pthread_cond_t *c) { __CPROVER_assert(mtx_owner == me, "state changes and signals happen under the mutex"); if (me == 1 && c_sleeping) c_token = 1; if (me == 2 && t_sleeping) t_token = 1; return 0; }
static void stuck_check(void);
int pthread_cond_wait(pthread_cond_t *c, pthread_mutex_t *m)
{
    __CPROVER_assert(mtx_owner == me, "cond_wait with the mutex held");
    mtx_owner = 0; if (me == 1) t_sleeping = 1; else c_sleeping = 1;
    /* the other party acts (up to 3 steps); then this sleeper returns: because of a signal, or spuriously */
    for (int i = 0; i < 3; i++) sched_point();
    int woken = me == 1 ? t_token : c_token; if (me == 1) t_token = 0; else c_token = 0;
    if (!woken && !nondet_bool()) { stuck_check(); __CPROVER_assume(0); }     /* no signal, no spurious wake-up: sleeps on */
    if (me == 1) t_sleeping = 0; else c_sleeping = 0;
    __CPROVER_assume(mtx_owner == 0); mtx_owner = me;
    return 0;
}
static pthread_t the_thread;
pthread_t pthread_self(void) { return the_thread; }
#include "arch/abtd_stream.c"
static ABTD_xstream_context CTX;
#if MODE == 0
/* ---- the controller model ---- */
static int c_pc;   /* 0 idle/not joined, 1 sleeping in join, 2 joined (knows WAITING), 3 free requested */
static void env_step(void)
{
    int a = nondet_int();
    if (c_pc == 0 && a == 1) {                       /* join */
        if (CTX.state != ABTD_XSTREAM_CONTEXT_STATE_WAITING) { __CPROVER_assert(CTX.state == ABTD_XSTREAM_CONTEXT_STATE_RUNNING, "join finds RUNNING or WAITING"); CTX.state = ABTD_XSTREAM_CONTEXT_STATE_REQ_JOIN; c_pc = 1; c_sleeping = 1; }
        else { c_pc = 2; joins_done++; __CPROVER_assert(runs_finished == runs_started, "join completes only after the current run of the stream's main function has finished"); }
    } else if (c_pc == 1 && (c_token || a == 2)) {   /* woken (signal or spuriously): re-check */
        c_token = 0;
        if (CTX.state != ABTD_XSTREAM_CONTEXT_STATE_REQ_JOIN) { __CPROVER_assert(CTX.state == ABTD_XSTREAM_CONTEXT_STATE_WAITING, "a joiner is released only into WAITING"); c_pc = 2; c_sleeping = 0; joins_done++; __CPROVER_assert(runs_finished == runs_started, "join completes only after the current run has finished"); }
    } else if (c_pc == 2 && a == 3 && revives < 1) {  /* revive */
        __CPROVER_assert(CTX.state == ABTD_XSTREAM_CONTEXT_STATE_WAITING, "revive of a joined stream"); CTX.state = ABTD_XSTREAM_CONTEXT_STATE_RUNNING; if (t_sleeping) t_token = 1; revives++; c_pc = 0;
    } else if (c_pc == 2 && a == 4) {                 /* free */
        CTX.state = ABTD_XSTREAM_CONTEXT_STATE_REQ_TERMINATE; if (t_sleeping) t_token = 1; free_req = 1; c_pc = 3;
    }
}
static void stuck_check(void)
{   /* the thread sleeps, no signal is pending and it will not wake spuriously: legal only while nobody has asked it to go on */
    __CPROVER_assert(!(c_pc == 1 && !c_token), "lost wake-up: the thread went to sleep while a joiner sleeps on the condition variable without having been signalled: both sleep forever");
}
static void *main_fn(void *a)
{
    __CPROVER_assert(!free_req, "the stream's main function never runs after free was requested");
    runs_started++; __CPROVER_assert(runs_started == revives + 1, "the stream's main function runs exactly once per create / revive");
    for (int i = 0; i < 2; i++) sched_point();     /* the controller may request a join while the stream runs */
    runs_finished++;
    return NULL;
}
int main(void)
{
    CTX.thread_f = main_fn; CTX.p_arg = &CTX; CTX.state = ABTD_XSTREAM_CONTEXT_STATE_RUNNING;     /* as ABTD_xstream_context_create leaves it */
    me = 1;
    xstream_context_thread_func(&CTX);
    t_exited = 1;
    VR_ASSERT(free_req, "the native thread leaves only when free was requested");
    VR_ASSERT(runs_started == revives + 1 && runs_finished == runs_started, "one complete run per create / revive");
    if (revives == 1 && joins_done >= 2) VR_WITNESS("create, run, join, revive, run, join, free");
    if (revives == 0) VR_WITNESS("create, run, join, free");
    return 0;
}
#else
/* ---- the native-thread model ---- */
static int t_pc = 0;   /* 0 running the main function, 1 sleeping in WAITING, 2 exited */
static void env_step(void)
{
    int a = nondet_int();
    if (t_pc == 0 && a == 1) {                        /* the run finishes */
        runs_finished++;
        if (CTX.state == ABTD_XSTREAM_CONTEXT_STATE_REQ_JOIN && c_sleeping) c_token = 1;
        CTX.state = ABTD_XSTREAM_CONTEXT_STATE_WAITING; t_pc = 1; t_sleeping = 1;
    } else if (t_pc == 1 && (t_token || a == 2)) { /* woken (signal or spuriously): re-check */
        t_token = 0;
        if (CTX.state == ABTD_XSTREAM_CONTEXT_STATE_REQ_TERMINATE) { t_pc = 2; t_sleeping = 0; t_exited = 1; }
        else if (CTX.state != ABTD_XSTREAM_CONTEXT_STATE_WAITING) { t_pc = 0; t_sleeping = 0; runs_started++; }
    }
}
static void stuck_check(void)
{
    __CPROVER_assert(!(t_pc == 1 && !t_token), "lost wake-up: the controller sleeps on the condition variable while the native thread sleeps too and nobody was signalled");
}
int pthread_join(pthread_t t, void **r)
{
    for (int i = 0; i < 3; i++) sched_point();
    __CPROVER_assert(!(t_pc == 1 && CTX.state != ABTD_XSTREAM_CONTEXT_STATE_REQ_TERMINATE), "free: the sleeping thread was asked to terminate");
    __CPROVER_assert(!(t_pc == 1 && !t_token), "free: the sleeping thread was signalled after the terminate request (otherwise pthread_join never returns)");
    __CPROVER_assume(t_pc == 2);
    return 0;
}
int main(void)
{
    CTX.state = ABTD_XSTREAM_CONTEXT_STATE_RUNNING; runs_started = 1; t_pc = 0;
    me = 2;
    ABTD_xstream_context_join(&CTX);
    VR_ASSERT(runs_finished == runs_started && CTX.state == ABTD_XSTREAM_CONTEXT_STATE_WAITING, "join returns only after the run has finished (WAITING)");
    if (nondet_bool()) {
        ABTD_xstream_context_revive(&CTX); revives++;
        for (int i = 0; i < 3; i++) sched_point();
        VR_ASSERT(runs_started == 2 || t_token, "revive: the sleeping thread is signalled after the state change (it runs again, or is about to)");
        __CPROVER_assume(runs_started == 2);          /* the woken thread gets the processor eventually */
        ABTD_xstream_context_join(&CTX);
        VR_ASSERT(runs_finished == 2 && CTX.state == ABTD_XSTREAM_CONTEXT_STATE_WAITING, "second join returns only after the second run has finished");
    }
    ABTD_xstream_context_free(&CTX);
    VR_ASSERT(t_exited, "free returns only after the native thread has left");
    if (revives) VR_WITNESS("join, revive, join, free");
    else VR_WITNESS("join, free");
    return 0;
}
#endif
