/* C17 / C06: ABT_xstream_revive (stream.c) from ANY state a joined -- or not yet joined -- stream can be in.
 * The stream's main scheduler carries arbitrary stale request bits (the FINISH left by the join, EXIT, REPLACE), its scheduler
 * ULT arbitrary stale request bits; the ULT is TERMINATED (the stream was joined) or not.
 * Required after a successful revive: the scheduler's request word is EMPTY (a left-over FINISH/EXIT would make the revived
 * stream terminate by itself at its first event check: work pushed to it afterwards never runs and the next join returns at
 * once), the scheduler ULT has been revived exactly once into the stream's root pool with its own function and argument, the
 * stream reads RUNNING, and the native thread is released (ABTD_xstream_context_revive) exactly once and LAST -- the moment it
 * is released it runs the root ULT, which pops the root pool and reads all of the above.
 * A stream that has not terminated is refused with ABT_ERR_INV_XSTREAM and nothing is touched.
 * ABTI_thread_revive itself is decided by C12's revive obligations; here it is a recording stub. */
#include "abti.h"
#include "vr.h"
#include "stub_pthread.h"
#include "stub_io.h"
#include "stream.c"
ABTI_global *gp_ABTI_global; ABTD_XSTREAM_LOCAL ABTI_local *lp_ABTI_local;
static ABTI_global G;
static ABTI_xstream XS, XCALLER;
static ABTI_sched S; static ABTI_ythread YS, YCALLER; static ABTI_pool ROOT;
static int revived, native_revived, bad_order;
static void msf(void *a) {}
int ABTI_thread_revive(ABTI_global *g, ABTI_local *l, ABTI_pool *p, void (*f)(void *), void *arg, ABTI_thread *t)
{
    __CPROVER_assert(t == &YS.thread && p == &ROOT, "the scheduler ULT is revived into the stream's root pool");
    __CPROVER_assert(f == msf && arg == (void *)&S, "with its own function and argument");
    if (native_revived) bad_order = 1;
    /* (what thread.c does: request word cleared, READY, pushed) */
    t->request.val = 0; t->state.val = ABT_THREAD_STATE_READY; revived++;
    return ABT_SUCCESS;
}
void ABTD_xstream_context_revive(ABTD_xstream_context *c)
{
    __CPROVER_assert(c == &XS.ctx, "the native thread of this stream is released");
    /* everything the root ULT / scheduler will read must be in place now */
    if (!revived || S.request.val != 0 || XS.state.val != ABT_XSTREAM_STATE_RUNNING || YS.thread.state.val != ABT_THREAD_STATE_READY) bad_order = 1;
    native_revived++;
}
int main(void)
{
    gp_ABTI_global = &G;
    XS.p_main_sched = &S; XS.p_root_pool = &ROOT; XS.type = ABTI_XSTREAM_TYPE_SECONDARY; XS.state.val = ABT_XSTREAM_STATE_TERMINATED;
    S.p_ythread = &YS; S.used = ABTI_SCHED_MAIN;
    uint32_t sreq = nondet_u32(); VR_ASSUME((sreq & ~(uint32_t)(ABTI_SCHED_REQ_FINISH | ABTI_SCHED_REQ_EXIT | ABTI_SCHED_REQ_REPLACE)) == 0); S.request.val = sreq;
    uint32_t treq = nondet_u32(); VR_ASSUME((treq & ~(uint32_t)(ABTI_THREAD_REQ_JOIN | ABTI_THREAD_REQ_CANCEL | ABTI_THREAD_REQ_MIGRATE)) == 0); YS.thread.request.val = treq;
    YS.thread.type = ABTI_THREAD_TYPE_THREAD | ABTI_THREAD_TYPE_YIELDABLE | ABTI_THREAD_TYPE_MAIN_SCHED | ABTI_THREAD_TYPE_NAMED; YS.thread.f_thread = msf; YS.thread.p_arg = &S;
    int st = nondet_int(); VR_ASSUME(st == ABT_THREAD_STATE_TERMINATED || st == ABT_THREAD_STATE_READY || st == ABT_THREAD_STATE_RUNNING || st == ABT_THREAD_STATE_BLOCKED); YS.thread.state.val = st;
    if (st != ABT_THREAD_STATE_TERMINATED) XS.state.val = ABT_XSTREAM_STATE_RUNNING;
    /* caller: a ULT of another stream or an external thread */
    XCALLER.p_thread = &YCALLER.thread; YCALLER.thread.type = ABTI_THREAD_TYPE_THREAD | ABTI_THREAD_TYPE_YIELDABLE;
    lp_ABTI_local = nondet_bool() ? (ABTI_local *)&XCALLER : NULL;
    int xstate0 = XS.state.val;
    int r = ABT_xstream_revive((ABT_xstream)&XS);
    if (st != ABT_THREAD_STATE_TERMINATED) {
        VR_ASSERT(r == ABT_ERR_INV_XSTREAM, "a stream that has not terminated cannot be revived");
        VR_ASSERT(revived == 0 && native_revived == 0 && S.request.val == sreq && YS.thread.request.val == treq && YS.thread.state.val == st && XS.state.val == xstate0, "a refused revive touches nothing");
        VR_WITNESS("refused: stream still running");
    } else {
        VR_ASSERT(r == ABT_SUCCESS, "a terminated stream is revived");
        VR_ASSERT(S.request.val == 0, "the revived stream's scheduler has NO pending request: a stale FINISH/EXIT/REPLACE from the previous life would terminate (or derail) it at its first event check");
        VR_ASSERT(revived == 1 && YS.thread.state.val == ABT_THREAD_STATE_READY && YS.thread.request.val == 0, "the scheduler ULT is revived exactly once");
        VR_ASSERT(XS.state.val == ABT_XSTREAM_STATE_RUNNING, "the stream reads RUNNING");
        VR_ASSERT(native_revived == 1 && !bad_order, "the native thread is released exactly once, after the scheduler, its ULT and the stream state are in place");
        if (sreq & ABTI_SCHED_REQ_FINISH) VR_WITNESS("revived with the FINISH request of the previous join still set");
    }
    return 0;
}
