/* C17/C18: the roll-back ladder of xstream_create (stream.c).  Each stage function of other modules is a stub that either
 * succeeds (recording the resource) or fails at the solver-chosen stage; the real xstream_create, xstream_set_new_rank,
 * xstream_return_rank run on a symbolic list of 0..2 live streams.  On failure: every acquired resource is released exactly
 * once, the rank is returned (list and ABT_xstream_get_num as before), the scheduler is reusable, the descriptor is freed;
 * on success the stream is in the list with its rank. */
#include <stdlib.h>
void vr_free(void *p);
#define free(p) vr_free(p)
#include "abti.h"
#include "vr.h"
#include "stub_io.h"
#include "stub_pthread.h"
static int vr_live, fail_stage, xs_allocs;
static ABTI_xstream NEWX;                 /* typed storage for the new stream descriptor */
static int newx_live, newx_freed;
int posix_memalign(void **p, size_t al, size_t sz)
{
    if (sz == ((sizeof(ABTI_xstream) + 63) & ~(size_t)63) && !newx_live) { if (fail_stage == 0) return 12; newx_live = 1; *p = &NEWX; return 0; }
    void *q = malloc(sz); __CPROVER_assume(q != NULL); vr_live++; *p = q; return 0;
}
void vr_free(void *p) { if (p == (void *)&NEWX) { __CPROVER_assert(newx_live && !newx_freed, "stream descriptor freed exactly once"); newx_freed = 1; return; } if (p) { vr_live--; (free)(p); } }
static int have_mem, have_root, have_rootpool, have_mainsched, have_ctx, bad_release;
static ABTI_ythread ROOT, MAINY; static ABTI_pool ROOTPOOL;
int ABTI_mem_init_local(ABTI_global *g, ABTI_xstream *x) { if (fail_stage == 2) return ABT_ERR_MEM; have_mem++; return ABT_SUCCESS; }
void ABTI_mem_finalize_local(ABTI_xstream *x) { if (have_mem != 1) bad_release = 1; have_mem--; }
int ABTI_ythread_create_root(ABTI_global *g, ABTI_local *l, ABTI_xstream *x, ABTI_ythread **pp) { if (fail_stage == 3) return ABT_ERR_MEM; have_root++; *pp = &ROOT; return ABT_SUCCESS; }
void ABTI_ythread_free_root(ABTI_global *g, ABTI_local *l, ABTI_ythread *y) { if (have_root != 1 || y != &ROOT) bad_release = 1; have_root--; }
int ABTI_pool_create_basic(ABT_pool_kind k, ABT_pool_access a, ABT_bool au, ABTI_pool **pp) { if (fail_stage == 4) return ABT_ERR_MEM; have_rootpool++; *pp = &ROOTPOOL; return ABT_SUCCESS; }
void ABTI_pool_free(ABTI_pool *p) { if (have_rootpool != 1 || p != &ROOTPOOL) bad_release = 1; have_rootpool--; }
int ABTI_ythread_create_main_sched(ABTI_global *g, ABTI_local *l, ABTI_xstream *x, ABTI_sched *s) { if (fail_stage == 5) return ABT_ERR_MEM; have_mainsched++; s->p_ythread = &MAINY; return ABT_SUCCESS; }
void ABTI_thread_free(ABTI_global *g, ABTI_local *l, ABTI_thread *t) { if (have_mainsched != 1 || t != &MAINY.thread) bad_release = 1; have_mainsched--; }
int ABTD_xstream_context_create(void *(*f)(void *), void *arg, ABTD_xstream_context *c) { if (fail_stage == 6) return ABT_ERR_SYS; have_ctx++; return ABT_SUCCESS; }
#include "stream.c"
ABTI_global *gp_ABTI_global;
ABTD_XSTREAM_LOCAL ABTI_local *lp_ABTI_local;
static ABTI_global G;
static ABTI_xstream X0, X1;
static ABTI_sched SCH;

int main(void)
{
    gp_ABTI_global = &G;
    int n = nondet_int(); VR_ASSUME(n >= 1 && n <= 2);
    int r1 = nondet_int(); VR_ASSUME(r1 >= 1 && r1 < 1000);
    X0.rank = 0; X0.p_prev = NULL; X0.p_next = n == 2 ? &X1 : NULL; X1.rank = r1; X1.p_prev = &X0; X1.p_next = NULL;
    G.p_xstream_head = &X0; G.num_xstreams = n; G.max_xstreams = 2000; G.set_affinity = ABT_FALSE;
    fail_stage = nondet_int(); VR_ASSUME(fail_stage >= 0 && fail_stage <= 7 && fail_stage != 1);   /* 7 = nothing fails */
    int rank = nondet_int(); VR_ASSUME(rank >= -1 && rank < 1000);
    int taken = (rank == 0) || (n == 2 && rank == r1);
    SCH.used = ABTI_SCHED_NOT_USED; SCH.p_ythread = NULL;
    ABTI_xstream *px = NULL;
    int r = xstream_create(&G, &SCH, ABTI_XSTREAM_TYPE_SECONDARY, rank, ABT_TRUE, &px);
    int num = -1; ABT_xstream_get_num(&num);
    if (fail_stage == 7 && !taken) {
        VR_ASSERT(r == ABT_SUCCESS && px == &NEWX, "creation succeeds when nothing fails");
        VR_ASSERT(num == n + 1 && have_mem == 1 && have_root == 1 && have_rootpool == 1 && have_mainsched == 1 && have_ctx == 1, "all stages acquired once; the stream is counted");
        VR_ASSERT(rank == -1 ? NEWX.rank == (n == 2 && r1 == 1 ? 2 : 1) : NEWX.rank == rank, "rank: smallest unused, or the requested one");
        VR_WITNESS("stream created");
    } else {
        VR_ASSERT(r != ABT_SUCCESS && px == NULL, "a failing stage (or a taken rank) makes the creation fail; no handle is returned");
        VR_ASSERT(have_mem == 0 && have_root == 0 && have_rootpool == 0 && have_mainsched == 0 && !bad_release, "every resource acquired by an earlier stage is released exactly once");
        VR_ASSERT(num == n && G.num_xstreams == n, "ABT_xstream_get_num equals the number of live streams again (the rank was returned)");
        VR_ASSERT(G.p_xstream_head == &X0 && X0.p_next == (n == 2 ? &X1 : NULL) && (n < 2 || X1.p_next == NULL) && X0.p_prev == NULL, "the failed stream is no longer in the stream list");
        VR_ASSERT(newx_live == newx_freed, "the stream descriptor is freed (if it was allocated)");
        VR_ASSERT(SCH.used == ABTI_SCHED_NOT_USED, "the scheduler passed in is reusable");
        if (fail_stage == 2) VR_WITNESS("local memory pool setup failed right after the rank was taken");
        if (fail_stage == 6) VR_WITNESS("native thread creation failed at the last stage");
        if (taken && fail_stage == 7) VR_WITNESS("requested rank already taken");
    }
    VR_ASSERT(G.xstream_list_lock.val.val == 0 && vr_live == 0, "list lock free, no stray allocation");
    return 0;
}
