/* C17-O3 / C18: xstream_update_main_sched (stream.c), both replacement branches, one step from symbolic states.
 * BR 1  replacing the main scheduler of ANOTHER (joined, WAITING) stream: the old scheduler's ULT is handed to the new
 *       scheduler and re-associated with the new scheduler's first pool, which may be a user-defined pool whose unit creation
 *       or unit-map registration fails (symbolic).  Success: new scheduler MAIN with the ULT, old one NOT_USED without it and
 *       freed iff automatic.  Failure: error code and NOTHING changed (old scheduler still main and complete, new scheduler
 *       still unused, so it can be freed or used elsewhere).
 * BR 2  replacing the main scheduler of the CALLER's stream from a ULT: the caller sits in a solver-chosen pool (one of the
 *       old scheduler's 1..3 pools, or an unrelated pool); the new scheduler has 1..3 pools.  When the switch to the old
 *       scheduler happens, the caller must be associated with the new scheduler's first pool if (and only if) it sat in a pool
 *       of the old scheduler (otherwise nobody would ever schedule it again), the replacement is recorded, an earlier pending
 *       replacement is discarded and its waiter resumed exactly once. */
#include "abti.h"
#include "vr.h"
#include "stub_pthread.h"
#include "stub_io.h"
#include "stream.c"
ABTI_global *gp_ABTI_global; ABTD_XSTREAM_LOCAL ABTI_local *lp_ABTI_local;
static ABTI_global G;
static ABTI_xstream XS, XOTHER;
static ABTI_sched SOLD, SNEW, SPEND;
static ABTI_pool OP0, OP1, OP2, NP0, NP1, NP2, UNREL;
static ABT_pool OLDP[3], NEWP[3];
static ABTI_ythread YSCHED, YCALLER, YWAITER;
static int units_made, units_freed, map_fail, sched_freed, discard_calls, resumed, switched;
static ABTI_ythread UNITOBJ;
static ABT_unit up_create_unit(ABT_pool p, ABT_thread t) { if (nondet_bool()) return ABT_UNIT_NULL; units_made++; return (ABT_unit)&UNITOBJ; }
static void up_free_unit(ABT_pool p, ABT_unit u) { units_freed++; }
int ABTI_unit_map_thread(ABTI_global *g, ABT_unit u, ABTI_thread *t) { if (nondet_bool()) { map_fail = 1; return ABT_ERR_MEM; } return ABT_SUCCESS; }
void ABTI_sched_free(ABTI_global *g, ABTI_local *l, ABTI_sched *s, ABT_bool force) { __CPROVER_assert(s == &SOLD, "only the replaced scheduler is freed"); sched_freed++; }
void ABTI_sched_discard_and_free(ABTI_global *g, ABTI_local *l, ABTI_sched *s, ABT_bool force) { __CPROVER_assert(s == &SPEND, "only the superseded pending scheduler is discarded"); discard_calls++; }
/* the harness pool of the earlier waiter */
static void wp_push(ABT_pool p, ABT_unit u, ABT_pool_context c) { __CPROVER_assert(u == YWAITER.thread.unit, "the earlier waiter is resumed"); resumed++; }
/* the context switch to the old main scheduler: the state at this moment is what the scheduler (and the new one) will see */
static ABTI_pool *caller_pool_at_switch; static ABTI_sched *repl_at_switch; static ABTI_ythread *waiter_at_switch;
void switch_with_call_fcontext(void *a, void (*f)(void *), fcontext_t *n, fcontext_t *o)
{ switched++; caller_pool_at_switch = YCALLER.thread.p_pool; repl_at_switch = SOLD.p_replace_sched; waiter_at_switch = SOLD.p_replace_waiter; __CPROVER_assert(f == ABTI_ythread_callback_suspend_replace_sched, "the caller suspends with the replace-scheduler callback"); }
void switch_fcontext(fcontext_t *n, fcontext_t *o) { __CPROVER_assert(0, "not expected"); }
void init_and_switch_with_call_fcontext(void *c, void (*fc)(void *), fcontext_t *n, void (*f)(fcontext_t *), void *s, fcontext_t *o) { __CPROVER_assert(0, "not expected"); }
static ABTI_pool *oldpool(int i) { return i == 0 ? &OP0 : i == 1 ? &OP1 : &OP2; }
static ABTI_pool *newpool(int i) { return i == 0 ? &NP0 : i == 1 ? &NP1 : &NP2; }

int main(void)
{
    gp_ABTI_global = &G;
    int no = nondet_int(), nn = nondet_int(); VR_ASSUME(no >= 1 && no <= 3 && nn >= 1 && nn <= 3);
    for (int i = 0; i < 3; i++) { OLDP[i] = (ABT_pool)oldpool(i); NEWP[i] = (ABT_pool)newpool(i); oldpool(i)->is_builtin = ABT_TRUE; newpool(i)->is_builtin = ABT_TRUE; }
    UNREL.is_builtin = ABT_TRUE;
    SOLD.pools = OLDP; SOLD.num_pools = no; SOLD.used = ABTI_SCHED_MAIN; SOLD.p_ythread = &YSCHED; SOLD.automatic = nondet_bool(); SOLD.p_replace_sched = NULL; SOLD.p_replace_waiter = NULL;
    SNEW.pools = NEWP; SNEW.num_pools = nn; SNEW.used = ABTI_SCHED_NOT_USED; SNEW.p_ythread = NULL; SNEW.automatic = nondet_bool();
    YSCHED.thread.type = ABTI_THREAD_TYPE_THREAD | ABTI_THREAD_TYPE_YIELDABLE | ABTI_THREAD_TYPE_MAIN_SCHED | ABTI_THREAD_TYPE_NAMED; YSCHED.thread.p_pool = &OP0; ABTI_unit_init_builtin(&YSCHED.thread);
    YSCHED.thread.p_last_xstream = &XS; YSCHED.ctx.ctx.dummy = (void *)1;      /* the scheduler ULT has been running on XS */
    XS.p_main_sched = &SOLD; XS.type = ABTI_XSTREAM_TYPE_SECONDARY;
    int user_first = nondet_bool();
    if (user_first) { NP0.is_builtin = ABT_FALSE; NP0.required_def.p_create_unit = up_create_unit; NP0.required_def.p_free_unit = up_free_unit; }
#if BR == 1
    XS.ctx.state = ABTD_XSTREAM_CONTEXT_STATE_WAITING;
    ABTI_xstream *p_local = nondet_bool() ? &XOTHER : NULL;     /* caller: a ULT of another stream, or an external thread */
    ABT_unit unit0 = YSCHED.thread.unit;
    int r = xstream_update_main_sched(&G, &p_local, &XS, &SNEW);
    if (r == ABT_SUCCESS) {
        VR_ASSERT(XS.p_main_sched == &SNEW && SNEW.used == ABTI_SCHED_MAIN && SNEW.p_ythread == &YSCHED, "the new scheduler is the main scheduler and owns the scheduler ULT");
        VR_ASSERT(YSCHED.thread.p_pool == &NP0, "the scheduler ULT is associated with the first pool of the new scheduler");
        VR_ASSERT(SOLD.used == ABTI_SCHED_NOT_USED && SOLD.p_ythread == NULL, "the replaced scheduler is released (reusable) and no longer owns the ULT");
        VR_ASSERT(sched_freed == (SOLD.automatic ? 1 : 0), "an automatic scheduler is freed exactly once, a user-managed one is kept");
        if (user_first) { VR_ASSERT(units_made == 1 && units_freed == 0 && YSCHED.thread.unit == (ABT_unit)&UNITOBJ, "the ULT carries the unit created by the user-defined pool"); VR_WITNESS("replaced with a scheduler on a user-defined pool"); }
    } else {
        VR_ASSERT(user_first, "replacement fails only if the user-defined pool cannot create/register a unit");
        VR_ASSERT(XS.p_main_sched == &SOLD && SOLD.used == ABTI_SCHED_MAIN && SOLD.p_ythread == &YSCHED, "failure leaves the old scheduler in place, complete");
        VR_ASSERT(SNEW.used == ABTI_SCHED_NOT_USED && SNEW.p_ythread == NULL, "failure leaves the new scheduler unused (it can still be freed or used elsewhere)");
        VR_ASSERT(YSCHED.thread.p_pool == &OP0 && YSCHED.thread.unit == unit0, "failure leaves the scheduler ULT where it was");
        VR_ASSERT(sched_freed == 0 && units_made == units_freed, "nothing freed, nothing leaked");
        VR_WITNESS("unit creation failed: replacement rejected");
    }
#else
    ABTI_xstream *p_local = &XS; XS.p_thread = &YCALLER.thread;
    int where = nondet_int(); VR_ASSUME(where >= 0 && where <= 3);       /* 0..2: pool of the old scheduler; 3: unrelated pool */
    YCALLER.thread.type = ABTI_THREAD_TYPE_THREAD | ABTI_THREAD_TYPE_YIELDABLE | ABTI_THREAD_TYPE_NAMED; YCALLER.thread.p_pool = where == 3 ? &UNREL : oldpool(where); ABTI_unit_init_builtin(&YCALLER.thread);
    YCALLER.thread.p_last_xstream = &XS; YCALLER.thread.p_parent = &YSCHED.thread; YCALLER.thread.state.val = ABT_THREAD_STATE_RUNNING;
    int in_old = where < no;       /* pools beyond num_pools do not belong to the old scheduler */
    int pending = nondet_bool();
    if (pending) { SOLD.p_replace_sched = &SPEND; SOLD.p_replace_waiter = &YWAITER; YWAITER.thread.type = ABTI_THREAD_TYPE_THREAD | ABTI_THREAD_TYPE_YIELDABLE | ABTI_THREAD_TYPE_NAMED; YWAITER.thread.p_pool = &UNREL; ABTI_unit_init_builtin(&YWAITER.thread); YWAITER.thread.state.val = ABT_THREAD_STATE_BLOCKED; UNREL.num_blocked.val = 1; UNREL.required_def.p_push = wp_push; }
    VR_ASSUME(!user_first);        /* failure of the caller's re-association is BR 1's twin; here the hand-over itself is the subject */
    int r = xstream_update_main_sched(&G, &p_local, &XS, &SNEW);
    VR_ASSERT(r == ABT_SUCCESS && switched == 1, "the caller switches to the old main scheduler exactly once");
    VR_ASSERT(repl_at_switch == &SNEW && waiter_at_switch == &YCALLER, "the replacement and its waiter are recorded before the switch");
    if (in_old) VR_ASSERT(caller_pool_at_switch == &NP0, "a caller that sat in a pool of the old scheduler is re-associated with the first pool of the new scheduler before the switch");
    else VR_ASSERT(caller_pool_at_switch == YCALLER.thread.p_pool && caller_pool_at_switch == (where == 3 ? &UNREL : oldpool(where)), "a caller in an unrelated pool stays there");
    VR_ASSERT(discard_calls == pending && resumed == pending, "an earlier pending replacement is discarded and its waiter resumed exactly once");
    if (pending) VR_ASSERT(YWAITER.thread.state.val == ABT_THREAD_STATE_READY && UNREL.num_blocked.val == 0, "the earlier waiter is READY and no longer counted as blocked");
    if (in_old && where == 2 && nn == 1) VR_WITNESS("caller in the last of three old pools, new scheduler has one pool");
    if (pending) VR_WITNESS("an earlier replacement was pending");
#endif
    return 0;
}
