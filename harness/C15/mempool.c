/* C15-O2: conservation in the memory-pool layer (mem/mem_pool.c, abti_mem_pool.h), one step each from symbolic states.
 * A "header" is one block (descriptor, or stack+descriptor).  Everywhere: every header is in exactly ONE place -- a local
 * bucket, a bucket of the global LIFO, the partial bucket, carved-but-unused page memory, or owned by the caller -- and the
 * counters stored next to the chains equal the chain lengths (a wrong counter makes a later walk lose or invent blocks).
 *  MODE 0  mem_pool_return_partial_bucket: partial bucket of P headers (or none) + returned bucket of B headers, N per bucket
 *          (all symbolic): afterwards the global LIFO holds only complete buckets and the partial bucket holds the rest,
 *          with the right counter.
 *  MODE 1  ABTI_mem_pool_take_bucket on an empty bucket LIFO: headers are carved from a partly used page and/or fresh pages;
 *          the k-th page allocation may fail (k symbolic): success = exactly N distinct, in-page, non-overlapping headers;
 *          failure = error code, the headers carved so far are conserved in the partial bucket, the bucket LIFO still
 *          holds complete buckets only; pages are accounted exactly (LIFO of pages with room / list of full pages).
 *  MODE 2  ABTI_mem_pool_alloc / ABTI_mem_pool_free on a local pool in an arbitrary valid state (0..2 buckets, fill level
 *          symbolic), global LIFO with 0..1 bucket, page allocation failing: the block handed out was free and is not free
 *          afterwards, a freed block is free afterwards, nothing else moves out of the pools; on failure nothing changes.
 * The 128-bit CAS of the LIFO is modelled (uninterrupted: must succeed, asserted); its concurrency is lifo.c's subject. */
#include <stdint.h>
#include <stddef.h>
#include "vr.h"
#define ABTD_ASM_INT128_CAS_H_INCLUDED
static inline int ABTD_asm_bool_cas_weak_int128(__int128 *var, __int128 oldv, __int128 newv)
{ __CPROVER_assert(*var == oldv, "CAS of an uninterrupted operation succeeds"); *var = newv; return 1; }
#include "abti.h"
#include "stub_io.h"
#include "mem/mem_pool.c"
ABTI_global *gp_ABTI_global; ABTD_XSTREAM_LOCAL ABTI_local *lp_ABTI_local;
static ABTI_mem_pool_global_pool GP;
static ABTI_mem_pool_local_pool LP;
#define NH 10
static ABTI_mem_pool_header H0, H1, H2, H3, H4, H5, H6, H7, H8, H9;
static ABTI_mem_pool_header *const HP[NH] = { &H0, &H1, &H2, &H3, &H4, &H5, &H6, &H7, &H8, &H9 };
static int seen[NH];
static int hidx(ABTI_mem_pool_header *p) { for (int i = 0; i < NH; i++) if (p == HP[i]) return i; return -1; }
/* build a chain of n headers starting with static header number *next; returns its head */
static ABTI_mem_pool_header *chain(int n, int *next)
{
    ABTI_mem_pool_header *head = NULL;
    for (int i = 0; i < n; i++) { ABTI_mem_pool_header *h = HP[*next]; (*next)++; h->p_next = head; head = h; }
    return head;
}
/* walk exactly n headers of a chain, marking them; every header may be met once only */
static void mark_chain(ABTI_mem_pool_header *p, long n, int where)
{
    for (long i = 0; i < n; i++) {
        int k = hidx(p);
        VR_ASSERT(k >= 0, "a chain counter never exceeds the chain (the walk stays on real blocks)");
        if (k < 0) return;
        VR_ASSERT(seen[k] == 0, "no block is in two places at once");
        seen[k] = where;
        p = p->p_next;
    }
}
static int nalloc, fail_at, npages;
#if MODE == 1
#define HS 64
#define KPP 3                                 /* headers per page */
#define PGSZ (HS * KPP + 64)
static char PG0[PGSZ] __attribute__((aligned(64))), PG1[PGSZ] __attribute__((aligned(64))), PG2[PGSZ] __attribute__((aligned(64)));
static char *const PGP[3] = { PG0, PG1, PG2 };
#endif
int ABTU_alloc_largepage(size_t size, size_t alignment_hint, const ABTU_MEM_LARGEPAGE_TYPE *t, int nt, ABTU_MEM_LARGEPAGE_TYPE *p_actual, void **p_ptr)
{
    nalloc++;
#if MODE == 1
    if (nalloc == fail_at || npages >= 3) return ABT_ERR_MEM;
    __CPROVER_assert(size == PGSZ, "page request has the configured size");
    *p_actual = ABTU_MEM_LARGEPAGE_MALLOC; *p_ptr = PGP[npages++]; return ABT_SUCCESS;
#else
    return ABT_ERR_MEM;
#endif
}
void ABTU_free_largepage(void *p, size_t s, ABTU_MEM_LARGEPAGE_TYPE t) {}
int ABTU_mprotect(void *p, size_t s, ABT_bool b) { return ABT_SUCCESS; }

/* every bucket in the global LIFO must be complete */
static int mark_global(int N)
{
    int nb = 0;
    ABTI_sync_lifo_element *e = (ABTI_sync_lifo_element *)GP.bucket_lifo.p_top.ptr;
    for (int b = 0; b < 3 && e; b++) {
        ABTI_mem_pool_header *h = mem_pool_lifo_elem_to_header(e);
        ABTI_sync_lifo_element *nx = e->p_next;      /* the LIFO link shares storage with num_headers: read it first */
        mark_chain(h, N, 2); nb++;
        e = nx;
    }
    VR_ASSERT(e == NULL, "bounded number of global buckets");
    return nb;
}

int main(void)
{
#ifdef NPB
    int N = NPB;
#else
    int N = nondet_int(); __CPROVER_assume(N >= 1 && N <= 4);
#endif
    GP.num_headers_per_bucket = N; GP.partial_bucket = NULL; GP.bucket_lifo.p_top.ptr = NULL; GP.bucket_lifo.p_top.tag = nondet_size_t();
    GP.mem_page_lifo.p_top.ptr = NULL; GP.mem_page_lifo.p_top.tag = nondet_size_t(); GP.p_mem_page_empty.val = NULL;
    GP.mprotect_config.enabled = ABT_FALSE;
    int next = 0;
#if MODE == 0
    int P = nondet_int(), B = nondet_int(); __CPROVER_assume(P >= 0 && P < N && B >= 1 && B < N);
    if (P > 0) { GP.partial_bucket = chain(P, &next); GP.partial_bucket->bucket_info.num_headers = P; }
    ABTI_mem_pool_header *bucket = chain(B, &next); bucket->bucket_info.num_headers = B;
    mem_pool_return_partial_bucket(&GP, bucket);
    int nb = mark_global(N);
    long rest = (P + B) - nb * N;
    VR_ASSERT(nb == (P + B) / N, "a complete bucket is handed to the global LIFO exactly when enough headers are there");
    if (rest == 0) VR_ASSERT(GP.partial_bucket == NULL, "no partial bucket is left when the headers made exactly one bucket");
    else {
        VR_ASSERT(GP.partial_bucket != NULL, "the remaining headers stay in the partial bucket");
        if (GP.partial_bucket) {
            VR_ASSERT(GP.partial_bucket->bucket_info.num_headers == (size_t)rest, "the partial bucket's counter equals the number of headers it holds");
            mark_chain(GP.partial_bucket, rest, 3);
        }
    }
    for (int i = 0; i < NH; i++) if (i < P + B) VR_ASSERT(seen[i] != 0, "no header is lost"); 
    VR_ASSERT(GP.partial_bucket_lock.val.val == 0, "partial-bucket lock released");
    if (P + B > N) VR_WITNESS("partial + returned headers exceed one bucket: a bucket is completed and a remainder is kept");
    if (P + B == N) VR_WITNESS("partial + returned headers make exactly one bucket");
    if (P > 0 && P + B < N) VR_WITNESS("still partial");
#endif
#if MODE == 1
#ifdef U
    int u = U; size_t off = OFF;                                       /* one obligation per (u, offset): keeps the byte-level page model small */
#else
    int u = nondet_int(); __CPROVER_assume(u >= 0 && u <= 2);          /* headers of page 0 already handed out earlier */
    size_t off = nondet_bool() ? 0 : (nondet_bool() ? 16 : 48);
#endif
    GP.header_size = HS; GP.header_offset = off; GP.page_size = PGSZ; GP.alignment_hint = 64; GP.num_lp_type_requests = 1; GP.lp_type_requests[0] = ABTU_MEM_LARGEPAGE_MALLOC;
    fail_at = nondet_int(); __CPROVER_assume(fail_at >= 0 && fail_at <= 3);   /* 0: no failure */
    if (u > 0) {   /* page 0 exists and still has room: it sits in the LIFO of pages with room */
        ABTI_mem_pool_page *pg = (ABTI_mem_pool_page *)(PG0 + PGSZ - sizeof(ABTI_mem_pool_page));
        pg->mem = PG0; pg->page_size = PGSZ; pg->lp_type = ABTU_MEM_LARGEPAGE_MALLOC; pg->p_mem_extra = PG0 + u * HS; pg->mem_extra_size = PGSZ - sizeof(ABTI_mem_pool_page) - u * HS;
        pg->lifo_elem.p_next = NULL; GP.mem_page_lifo.p_top.ptr = &pg->lifo_elem; npages = 1;
    }
    ABTI_mem_pool_header *bucket = NULL;
    int r = ABTI_mem_pool_take_bucket(&GP, &bucket);
    /* page accounting */
    int carved = 0, inlifo = 0, inempty = 0;
    for (int q = 0; q < 3; q++) if (q < npages) {
        ABTI_mem_pool_page *pg = (ABTI_mem_pool_page *)(PGP[q] + PGSZ - sizeof(ABTI_mem_pool_page));
        long c = ((char *)pg->p_mem_extra - PGP[q]) / HS;
        VR_ASSERT(pg->mem == PGP[q] && c >= 0 && c <= KPP && (char *)pg->p_mem_extra == PGP[q] + c * HS, "page bookkeeping: the unused part starts at a block boundary inside the page");
        VR_ASSERT(pg->mem_extra_size == PGSZ - sizeof(ABTI_mem_pool_page) - c * HS, "page bookkeeping: remaining size matches the blocks carved");
        carved += c;
        int l = 0, e = 0;
        for (ABTI_sync_lifo_element *x = (ABTI_sync_lifo_element *)GP.mem_page_lifo.p_top.ptr; x; x = x->p_next) if (x == &pg->lifo_elem) l++;
        for (ABTI_mem_pool_page *x = (ABTI_mem_pool_page *)GP.p_mem_page_empty.val; x; x = x->p_next_empty_page) if (x == pg) e++;
        VR_ASSERT(l + e == 1, "every page is registered exactly once (so that finalize frees it exactly once)");
        VR_ASSERT((l == 1) == (pg->mem_extra_size >= HS), "a page is offered for carving exactly while it has room for a block");
        inlifo += l; inempty += e;
    }
    int used[3][KPP] = { { 0 } };
    if (r == ABT_SUCCESS) {
        VR_ASSERT(bucket != NULL && bucket->bucket_info.num_headers == (size_t)N, "a taken bucket announces N blocks");
        ABTI_mem_pool_header *h = bucket;
        for (int i = 0; i < 4; i++) if (i < N) {
            int found = 0;
            for (int q = 0; q < 3; q++) for (int j = 0; j < KPP; j++) if (q < npages && (char *)h == PGP[q] + j * HS + off) { found++; VR_ASSERT(!used[q][j], "the blocks of a bucket are pairwise distinct"); used[q][j] = 1; VR_ASSERT(q != 0 || j >= u, "a block handed out earlier is never carved again (no overlap with a live block)"); }
            VR_ASSERT(found == 1, "every block of the bucket lies at a block boundary inside a page, clear of the page descriptor");
            if (found != 1) break;
            h = h->p_next;
        }
        VR_ASSERT(h == NULL, "the bucket ends after N blocks");
        VR_ASSERT(carved == u + N, "exactly N new blocks were carved");
        VR_ASSERT(GP.partial_bucket == NULL && GP.bucket_lifo.p_top.ptr == NULL, "nothing else appears in the global pool");
#if !defined(NPB) || (NPB == 4 && U == 2)
        if (npages == 2 && N == 4 && u == 2) VR_WITNESS("bucket assembled from the rest of an old page and a fresh page");
#endif
#if !defined(NPB) || (NPB + U >= 3)
        if (inempty >= 1) VR_WITNESS("a page became full and moved to the list of full pages");
#endif
        VR_WITNESS("take_bucket succeeded by carving");
    } else {
        VR_ASSERT(r == ABT_ERR_MEM && fail_at != 0, "take_bucket fails only when a page allocation failed");
        VR_ASSERT(bucket == NULL, "no bucket is returned on failure");
        VR_ASSERT(GP.bucket_lifo.p_top.ptr == NULL, "an incomplete bucket is never offered as a complete one");
        int got = carved - u;
        if (got == 0) VR_ASSERT(GP.partial_bucket == NULL, "nothing carved, nothing kept");
        else {
            VR_ASSERT(GP.partial_bucket != NULL && GP.partial_bucket->bucket_info.num_headers == (size_t)got, "blocks carved before the failure are kept in the partial bucket with the right counter");
            ABTI_mem_pool_header *h = GP.partial_bucket;
            for (int i = 0; i < 4; i++) if (i < got && h) {
                int found = 0;
                for (int q = 0; q < 3; q++) for (int j = 0; j < KPP; j++) if (q < npages && (char *)h == PGP[q] + j * HS + off) { found++; VR_ASSERT(!used[q][j], "kept blocks are pairwise distinct"); used[q][j] = 1; }
                VR_ASSERT(found == 1, "kept blocks are real blocks");
                h = h->p_next;
            }
            VR_ASSERT(h == NULL, "the partial bucket ends after its blocks");
#if !defined(NPB) || (NPB == 4) || (NPB + U > 3 && U > 0)
            VR_WITNESS("page allocation failed after some blocks had been carved");
#endif
        }
    }
#endif
#if MODE == 2
    int bi = nondet_int(), c = nondet_int(), gb = nondet_int(); __CPROVER_assume(bi >= 0 && bi <= 1 && c >= 1 && c <= N && gb >= 0 && gb <= 1 && N >= 2 && N <= 3);
    LP.p_global_pool = &GP; LP.num_headers_per_bucket = N; LP.bucket_index = bi;
    if (bi == 1) { LP.buckets[0] = chain(N, &next); LP.buckets[0]->bucket_info.num_headers = N; }
    LP.buckets[bi] = chain(c, &next); LP.buckets[bi]->bucket_info.num_headers = c;
    int nlocal = next;
    if (gb) { ABTI_mem_pool_header *b = chain(N, &next); b->bucket_info.lifo_elem.p_next = NULL; GP.bucket_lifo.p_top.ptr = &b->bucket_info.lifo_elem; }
    int total = next;                       /* headers 0..total-1 are free blocks, header 9 is a block owned by the caller */
    ABTI_mem_pool_header *cur0 = LP.buckets[bi];
    void *blk = NULL; int r = ABT_SUCCESS;
#if OP == 0
    r = ABTI_mem_pool_alloc(&LP, &blk);
#else
    H9.p_next = HP[nondet_bool() ? 0 : 9]; H9.bucket_info.num_headers = nondet_size_t();     /* garbage left by the user */
    ABTI_mem_pool_free(&LP, &H9);
#endif
    int bi2 = LP.bucket_index;
    VR_ASSERT(bi2 >= 0 && bi2 < ABT_MEM_POOL_MAX_LOCAL_BUCKETS, "bucket index stays in range");
    int nfree = 0;
    if (bi2 >= 0 && bi2 < ABT_MEM_POOL_MAX_LOCAL_BUCKETS) {
        for (int i = 0; i < ABT_MEM_POOL_MAX_LOCAL_BUCKETS; i++) if (i < bi2) { VR_ASSERT(LP.buckets[i]->bucket_info.num_headers == (size_t)N, "buckets below the current one are full"); mark_chain(LP.buckets[i], N, 1); nfree += N; }
        size_t c2 = LP.buckets[bi2]->bucket_info.num_headers;
        VR_ASSERT(c2 >= 1 && c2 <= (size_t)N, "the current bucket holds between 1 and N blocks (the pool never runs empty)");
        if (c2 >= 1 && c2 <= (size_t)N) { mark_chain(LP.buckets[bi2], c2, 1); nfree += c2; }
    }
    nfree += N * mark_global(N);
    VR_ASSERT(GP.partial_bucket == NULL, "single alloc/free never creates a partial bucket");
#if OP == 0
    if (r == ABT_SUCCESS) {
        int k = hidx((ABTI_mem_pool_header *)blk);
        VR_ASSERT(k >= 0 && k < total, "the block handed out was a free block of this pool");
        if (k >= 0) VR_ASSERT(seen[k] == 0, "the block handed out is no longer free (it cannot be handed out twice)");
        VR_ASSERT(nfree == total - 1, "exactly one block left the pool");
        for (int i = 0; i < NH; i++) if (i < total && i != k) VR_ASSERT(seen[i] != 0, "no other free block is lost");
        if (bi == 0 && c == 1 && gb) VR_WITNESS("the last local block was handed out and a bucket was taken from the global pool");
        if (bi == 1 && c == 1) VR_WITNESS("the current bucket ran empty, the pool steps down to the full bucket below");
    } else {
        VR_ASSERT(r == ABT_ERR_MEM && bi == 0 && c == 1 && !gb, "allocation fails only when the pool must refill and the refill fails");
        VR_ASSERT(blk == NULL && nfree == total && LP.bucket_index == (size_t)bi && LP.buckets[bi] == cur0, "a failed allocation leaves the pool unchanged");
        for (int i = 0; i < NH; i++) if (i < total) VR_ASSERT(seen[i] != 0, "no free block is lost by a failed allocation");
        VR_WITNESS("refill failed: allocation reports an error");
    }
#else
    VR_ASSERT(seen[9] != 0, "the freed block is free afterwards");
    VR_ASSERT(nfree == total + 1, "exactly one block entered the pool");
    for (int i = 0; i < NH; i++) if (i < total) VR_ASSERT(seen[i] != 0, "no free block is lost by a free");
    if (bi == 1 && c == N) VR_WITNESS("both local buckets were full: the oldest went back to the global pool");
    if (bi == 0 && c == N) VR_WITNESS("the current bucket was full: a new bucket is started");
#endif
#endif
    return 0;
}
