/* C15-O2: conservation in the memory-pool layer (mem/mem_pool.c, abti_mem_pool.h), one step each from symbolic states.
 * A "header" is one block (descriptor, or stack+descriptor).  Everywhere: every header is in exactly ONE place -- a local
 * bucket, a bucket of the global LIFO, the partial bucket, carved-but-unused page memory, or owned by the caller -- and the
 * counters stored next to the chains equal the chain lengths (a wrong counter makes a later walk lose or invent blocks).
 *  MODE 0  mem_pool_return_partial_bucket: partial bucket of P headers (or none) + returned bucket of B headers, N per bucket
 *          (all symbolic): afterwards the global LIFO holds only complete buckets and the partial bucket holds the rest,
 *          with the right counter.
 *  MODE 1  ABTI_mem_pool_take_bucket on an empty bucket LIFO: headers are carved from a partly used page and/or fresh pages;
 *          the k-th page allocation may fail (k symbolic): success = exactly N distinct, in-page, non-overlapping headers;
 *          failure = error code, the headers carved so far are conserved in the partial bucket, the bucket LIFO still
 *          holds complete buckets only; pages are accounted exactly (LIFO of pages with room / list of full pages).
 *  MODE 2  ABTI_mem_pool_alloc / ABTI_mem_pool_free on a local pool in an arbitrary valid state (0..2 buckets, fill level
 *          symbolic), global LIFO with 0..1 bucket, page allocation failing: the block handed out was free and is not free
 *          afterwards, a freed block is free afterwards, nothing else moves out of the pools; on failure nothing changes.
 * The 128-bit CAS of the LIFO is modelled (uninterrupted: must succeed, asserted); its concurrency is lifo.c's subject. */
#include <stdint.h>
#include <stddef.h>
#include "vr.h"
#define ABTD_ASM_INT128_CAS_H_INCLUDED
static inline int ABTD_asm_bool_cas_weak_int128(__int128 *var, __int128 oldv, __int128 newv)
{ __CPROVER_assert(*var == oldv, "CAS of an uninterrupted operation succeeds"); *var = newv; return 1; }
#include "abti.h"
#include "stub_io.h"
#include "mem/mem_pool.c"
ABTI_global *gp_ABTI_global; ABTD_XSTREAM_LOCAL ABTI_local *lp_ABTI_local;
static ABTI_mem_pool_global_pool GP;
static ABTI_mem_pool_local_pool LP;
#define NH 10
static ABTI_mem_pool_header H0, H1, H2, H3, H4, H5, H6, H7, H8, H9;
static ABTI_mem_pool_header *const HP[NH] = { &H0, &H1, &H2, &H3, &H4, &H5, &H6, &H7, &H8, &H9 };
static int seen[NH];
static int hidx(ABTI_mem_pool_header *p) { for (int i = 0; i < NH; i++) if (p == HP[i]) return i; return -1; }
/* build a chain of n headers starting with static header number *next; returns its head */
static ABTI_mem_pool_header *chain(int n, int *next)
{
    ABTI_mem_pool_header *head = NULL;
    for (int i = 0; i < n; i++) { ABTI_mem_pool_header *h = HP[*next]; (*next)++; h->p_next = head; head = h; }
    return head;
}
/* walk exactly n headers of a chain, marking them; every header may be met once only */
static void mark_chain(ABTI_mem_pool_header *p, long n, int where)
{
    for (long i = 0; i < n; i++) {
        int k = hidx(p);
        VR_ASSERT(k >= 0, "a chain counter never exceeds the chain (the walk stays on real blocks)");
        if (k < 0) return;
        VR_ASSERT(seen[k] == 0, "no block is in two places at once");
        seen[k] = where;
        p = p->p_next;
    }
}
static int nalloc, fail_at, npages;
#if MODE == 1
#define HS 64
#define KPP 3                                 /* headers per page */
#define PGSZ (HS * KPP + 64)
static char PG0[PGSZ] __attribute__((aligned(64))), PG1[PGSZ] __attribute__((aligned(64))), PG2[PGSZ] __attribute__((aligned(64)));
static char *const PGP[3] = { PG0, PG1, PG2 };
#endif
int ABTU_alloc_largepage(size_t size, size_t alignment_hint, const ABTU_MEM_LARGEPAGE_TYPE *t, int nt, ABTU_MEM_LARGEPAGE_TYPE *p_actual, void **p_ptr)
{
    nalloc++;
#if MODE == 1
    if (nalloc == fail_at || npages >= 3) return ABT_ERR_MEM;
    __CPROVER_assert(size == PGSZ, "page request has the configured size");
    *p_actual = ABTU_MEM_LARGEPAGE_MALLOC; *p_ptr = PGP[npages++]; return ABT_SUCCESS;
#else
    return ABT_ERR_MEM;
#endif
}
void ABTU_free_largepage(void *p, size_t s, ABTU_MEM_LARGEPAGE_TYPE t) {}
int ABTU_mprotect(void *p, size_t s, ABT_bool b) { return ABT_SUCCESS; }

/* every bucket in the global LIFO must be complete */
static int mark_global(int N)
{
    int nb = 0;
    ABTI_sync_lifo_element *e = (ABTI_sync_lifo_element *)GP.bucket_lifo.p_top.ptr;
    for (int b = 0; b < 3 && e; b++) {
        ABTI_mem_pool_header *h = mem_pool_lifo_elem_to_header(e);
        ABTI_sync_lifo_element *nx = e->p_next;      /* the LIFO link shares storage with num_headers: read it first */
        mark_chain(h, N, 2); nb++;
        e = nx;
    }
    VR_ASSERT(e == NULL, "bounded number of global buckets");
    return nb;
}

int main(void)
{
    int N = nondet_int(); __CPROVER_assume(N >= 1 && N <= 4);
    GP.num_headers_per_bucket = N; GP.partial_bucket = NULL; GP.bucket_lifo.p_top.ptr = NULL; GP.bucket_lifo.p_top.tag = nondet_size_t();
    GP.mem_page_lifo.p_top.ptr = NULL; GP.mem_page_lifo.p_top.tag = nondet_size_t(); GP.p_mem_page_empty.val = NULL;
    GP.mprotect_config.enabled = ABT_FALSE;
    int next = 0;
#if MODE == 0
    int P = nondet_int(), B = nondet_int(); __CPROVER_assume(P >= 0 && P < N && B >= 1 && B < N);
    if (P > 0) { GP.partial_bucket = chain(P, &next); GP.partial_bucket->bucket_info.num_headers = P; }
    ABTI_mem_pool_header *bucket = chain(B, &next); bucket->bucket_info.num_headers = B;
    mem_pool_return_partial_bucket(&GP, bucket);
    int nb = mark_global(N);
    long rest = (P + B) - nb * N;
    VR_ASSERT(nb == (P + B) / N, "a complete bucket is handed to the global LIFO exactly when enough headers are there");
    if (rest == 0) VR_ASSERT(GP.partial_bucket == NULL, "no partial bucket is left when the headers made exactly one bucket");
    else {
        VR_ASSERT(GP.partial_bucket != NULL, "the remaining headers stay in the partial bucket");
        if (GP.partial_bucket) {
            VR_ASSERT(GP.partial_bucket->bucket_info.num_headers == (size_t)rest, "the partial bucket's counter equals the number of headers it holds");
            mark_chain(GP.partial_bucket, rest, 3);
        }
    }
    for (int i = 0; i < NH; i++) if (i < P + B) VR_ASSERT(seen[i] != 0, "no header is lost"); 
    VR_ASSERT(GP.partial_bucket_lock.val.val == 0, "partial-bucket lock released");
    if (P + B > N) VR_WITNESS("partial + returned headers exceed one bucket: a bucket is completed and a remainder is kept");
    if (P + B == N) VR_WITNESS("partial + returned headers make exactly one bucket");
    if (P > 0 && P + B < N) VR_WITNESS("still partial");
#endif
    return 0;
}
