/* C15-O1: stack provenance round trip with a SYMBOLIC stack size (bit-vector, no enumeration):
 * allocate descriptor+stack with the real abti_mem.h routine, inspect the recorded stack, free it with the real
 * ABTI_mem_free_thread.  cbmc's free() model checks that the freed pointer is exactly the malloc'ed one.
 * Caller = external thread (p_local == NULL) so that descriptors come from malloc; the memory-pool paths are O2. */
#include "abti.h"
#include "vr.h"
#include "stub_io.h"
ABTI_global *gp_ABTI_global;
static ABTI_global G;
int mprotect(void *a, size_t l, int p) { return 0; }
/* guard-page ledger (util/mprotect.c's ABTU_mprotect is a thin wrapper around mprotect(2)) */
static char *guard_addr; static size_t guard_size; static int guard_set, guard_bad;
int ABTU_mprotect(void *addr, size_t size, ABT_bool protect)
{
    if (protect) { if (guard_set) guard_bad = 1; guard_set = 1; guard_addr = addr; guard_size = size; }
    else { if (!guard_set || addr != (void *)guard_addr || size != guard_size) guard_bad = 1; guard_set = 0; }
    return ABT_SUCCESS;
}

int main(void)
{
    gp_ABTI_global = &G;
    { int gk = nondet_int(); VR_ASSUME(gk >= 0 && gk <= 2); G.stack_guard_kind = gk == 0 ? ABTI_STACK_GUARD_NONE : gk == 1 ? ABTI_STACK_GUARD_MPROTECT : ABTI_STACK_GUARD_MPROTECT_STRICT; }
    G.sys_page_size = 4096;
    size_t dflt = nondet_size_t(); VR_ASSUME(dflt >= 512 && dflt <= (16u << 20) && dflt % 512 == 0); /* abtd_env rounds the default to 512 */
    G.thread_stacksize = dflt;
    size_t ss = nondet_size_t(); VR_ASSUME(ss >= 1 && ss <= (16u << 20));
    ABTI_ythread *y = NULL; int r;
#if PROV == 0      /* non-default size: descriptor and stack malloc'ed together */
    r = ABTI_mem_alloc_ythread_malloc_desc_stack(&G, ss, &y);
#elif PROV == 1    /* default size requested by an external thread: same allocator */
    ss = dflt;
    r = ABTI_mem_alloc_ythread_mempool_desc_stack(&G, NULL, ss, &y);
#else              /* user-supplied stack at any 8-byte aligned address */
    size_t off = nondet_size_t(); VR_ASSUME(off <= 64 && off % 8 == 0);
    char *ubuf = malloc(ss + off); VR_ASSUME(ubuf != NULL);
    char *ustack = ubuf + off;
    r = ABTI_mem_alloc_ythread_mempool_desc(&G, NULL, ss, ustack + ss, &y);
#endif
    VR_ASSERT(r == ABT_SUCCESS && y != NULL, "allocation succeeds");
    char *top = (char *)ABTD_ythread_context_get_stacktop(&y->ctx);
    size_t sz = ABTD_ythread_context_get_stacksize(&y->ctx);
    VR_ASSERT(sz >= ss, "the ULT gets at least the requested stack size");
    char *bot = top - sz;
#if PROV <= 1
    VR_ASSERT(__CPROVER_POINTER_OBJECT(bot) == __CPROVER_POINTER_OBJECT(y), "stack and descriptor live in the same allocation");
    VR_ASSERT(__CPROVER_POINTER_OFFSET(bot) >= 0 && (size_t)__CPROVER_POINTER_OFFSET(top) <= __CPROVER_OBJECT_SIZE(y), "usable stack [top-size, top) lies inside the allocation");
    VR_ASSERT((char *)y >= top, "descriptor does not overlap the usable stack");
    VR_ASSERT((size_t)__CPROVER_POINTER_OFFSET((char *)y) + sizeof(ABTI_ythread) <= __CPROVER_OBJECT_SIZE(y), "descriptor lies inside the allocation");
    VR_ASSERT(__CPROVER_POINTER_OFFSET(top) % 16 == 0, "stack top 16-byte aligned relative to the (cache-line aligned) allocation");
#else
    VR_ASSERT(top == ustack + ss && sz == ss, "user stack recorded exactly as supplied");
    VR_ASSERT(__CPROVER_POINTER_OBJECT(y) != __CPROVER_POINTER_OBJECT(ubuf), "descriptor is not placed in the user's stack");
#endif
    if (guard_set && ss >= 2 * 4096) VR_ASSERT(guard_addr >= bot && guard_addr + guard_size <= top && guard_size == 4096 && ((size_t)__CPROVER_POINTER_OFFSET(guard_addr) + 0) % 1 == 0, "the guard page lies inside the ULT's own stack (stacks of at least two pages)");
    if (guard_set) VR_WITNESS("a guard page was installed");
    if (!guard_set) bot[0] = 1;
    top[-1] = 2;                    /* both ends of the usable stack are writable */
    y->thread.p_keytable.val = NULL;
    y->thread.type |= ABTI_THREAD_TYPE_THREAD | ABTI_THREAD_TYPE_YIELDABLE;     /* as ythread_create does for every ULT */
#if PROV != 1
    if (ss % 64 != 0 && ss > 4096) VR_WITNESS("stack size that is not a multiple of the cache line");
#endif
    if (ss % 64 == 0) VR_WITNESS("cache-line multiple");
    ABTI_mem_free_thread(&G, NULL, &y->thread);  /* cbmc checks: free() of exactly the malloc'ed pointer, once */
    VR_ASSERT(!guard_set && !guard_bad, "freeing the ULT removes exactly the guard page it installed, in every guard mode (no page of returned heap / user memory stays inaccessible)");
#if PROV == 2
    ustack[0] = 3;                              /* the user's stack is still the user's */
    free(ubuf);
#endif
    return 0;
}
