/* C15-O4: a block always returns to a pool of the class it came from (abti_mem.h routing).
 * Descriptor blocks (ABTI_MEM_POOL_DESC_ELEM_SIZE bytes) and stack blocks (stack + descriptor) live in different pools; a
 * descriptor returned to a stack pool would later be handed out as a whole stack (overlap with its neighbours).
 * A unit/descriptor is allocated by a ULT on ES0 with the real allocation routine selected by KIND and freed by the real
 * free routine under a solver-chosen identity: the same stream, another stream, or an external thread (which must use the
 * global *_ext pool of the same class under that pool's lock).  All six local pools are real ABTI_mem_pool_local_pool
 * objects with a few blocks each; afterwards every block is in exactly one pool, the freed block is in a pool of its own
 * class, and no lock is left held.
 * KIND 0 tasklet descriptor  1 default ULT (stack pool)  2 ULT with user stack (descriptor pool)  3 ABTI_mem_alloc_desc
 * KIND 4 an unnamed tasklet with a pending cancellation that LAST RAN on a solver-chosen stream (none / ES0 / ES1) is popped by the
 *        scheduler of a solver-chosen stream: the real ABTI_ythread_schedule terminates and releases it -- into the pool of the stream
 *        that EXECUTES the release (a local pool has no lock: only its own stream may touch it), not of the stream it last ran on */
#include <stdint.h>
#include <stddef.h>
#include "vr.h"
#define ABTD_ASM_INT128_CAS_H_INCLUDED
static inline int ABTD_asm_bool_cas_weak_int128(__int128 *var, __int128 oldv, __int128 newv)
{ __CPROVER_assert(*var == oldv, "CAS of an uninterrupted operation succeeds"); *var = newv; return 1; }
#include "vr_hooks.h"
#include "abti.h"
#include "stub_io.h"
ABTI_global *gp_ABTI_global; ABTD_XSTREAM_LOCAL ABTI_local *lp_ABTI_local;
static ABTI_global G; static ABTI_xstream ES0, ES1;
typedef union { ABTI_ythread y; ABTI_mem_pool_header h; char raw[(sizeof(ABTI_ythread) + 63) & ~(size_t)63]; } blk_t;
#define NB 12
static blk_t B0, B1, B2, B3, B4, B5, B6, B7, B8, B9, B10, B11;
static blk_t *const BP[NB] = { &B0, &B1, &B2, &B3, &B4, &B5, &B6, &B7, &B8, &B9, &B10, &B11 };
/* pools: 0 ES0.desc 1 ES0.stack 2 ES1.desc 3 ES1.stack 4 G.desc_ext 5 G.stack_ext ; class = index & 1 (0 desc, 1 stack) */
static ABTI_mem_pool_local_pool *pool(int i) { return i == 0 ? &ES0.mem_pool_desc : i == 1 ? &ES0.mem_pool_stack : i == 2 ? &ES1.mem_pool_desc : i == 3 ? &ES1.mem_pool_stack : i == 4 ? &G.mem_pool_desc_ext : &G.mem_pool_stack_ext; }
static int where[NB];
/* lock discipline monitor: called before every atomic access (lock acquire / release).  A global *_ext pool may only change
 * while ITS lock is held: at the release point the pool has changed since the previous point and the lock is still held. */
static void *last_desc_head, *last_stack_head; static int monitor_on, bad_lock;
void vr_sp(void)
{
    if (!monitor_on) return;
    if ((void *)G.mem_pool_desc_ext.buckets[0] != last_desc_head) { if (!G.mem_pool_desc_lock.val.val) bad_lock = 1; last_desc_head = G.mem_pool_desc_ext.buckets[0]; }
    if ((void *)G.mem_pool_stack_ext.buckets[0] != last_stack_head) { if (!G.mem_pool_stack_lock.val.val) bad_lock = 1; last_stack_head = G.mem_pool_stack_ext.buckets[0]; }
}
int ABTU_alloc_largepage(size_t size, size_t a, const ABTU_MEM_LARGEPAGE_TYPE *t, int nt, ABTU_MEM_LARGEPAGE_TYPE *pa, void **pp) { return ABT_ERR_MEM; }
int ABTU_mprotect(void *p, size_t s, ABT_bool b) { return ABT_SUCCESS; }
int ABTI_mem_pool_take_bucket(ABTI_mem_pool_global_pool *g, ABTI_mem_pool_header **b) { __CPROVER_assert(0, "no refill in this scenario"); return ABT_ERR_MEM; }
void ABTI_mem_pool_return_bucket(ABTI_mem_pool_global_pool *g, ABTI_mem_pool_header *b) { __CPROVER_assert(0, "no bucket return in this scenario"); }
static int bidx(void *p) { for (int i = 0; i < NB; i++) if (p == (void *)BP[i]) return i; return -1; }
static void scan(void)
{
    for (int i = 0; i < NB; i++) where[i] = -1;
    for (int q = 0; q < 6; q++) {
        ABTI_mem_pool_local_pool *lp = pool(q);
        VR_ASSERT(lp->bucket_index == 0, "no bucket traffic");
        ABTI_mem_pool_header *h = lp->buckets[0];
        size_t n = h->bucket_info.num_headers;
        VR_ASSERT(n >= 1 && n <= 3, "fill level in range");
        for (size_t k = 0; k < 3; k++) if (k < n) {
            int i = bidx(h);
            VR_ASSERT(i >= 0 && where[i] == -1, "every block is in at most one pool");
            if (i < 0) return;
            where[i] = q; h = h->p_next;
        }
    }
}
int main(void)
{
    gp_ABTI_global = &G; G.stack_guard_kind = ABTI_STACK_GUARD_NONE; G.thread_stacksize = 1024; G.sys_page_size = 4096;
    /* each pool starts with 2 of its own blocks: pool q owns blocks 2q, 2q+1 (3 per bucket: room for one more) */
    for (int q = 0; q < 6; q++) {
        ABTI_mem_pool_local_pool *lp = pool(q);
        lp->p_global_pool = (q & 1) ? &G.mem_pool_stack : &G.mem_pool_desc; lp->num_headers_per_bucket = 3; lp->bucket_index = 0;
        BP[2 * q]->h.p_next = &BP[2 * q + 1]->h; BP[2 * q]->h.bucket_info.num_headers = 2; BP[2 * q + 1]->h.p_next = NULL;
        lp->buckets[0] = &BP[2 * q]->h;
    }
    last_desc_head = G.mem_pool_desc_ext.buckets[0]; last_stack_head = G.mem_pool_stack_ext.buckets[0]; monitor_on = 1;
    ABTI_local *alloc_id = (ABTI_local *)&ES0;
    int f = nondet_int(); __CPROVER_assume(f >= 0 && f <= 2);
    ABTI_local *free_id = f == 0 ? (ABTI_local *)&ES0 : f == 1 ? (ABTI_local *)&ES1 : NULL;
    void *blk = NULL; int cls;
    static char userstack[256];
#if KIND == 0
    ABTI_thread *t; int r = ABTI_mem_alloc_nythread(alloc_id, &t); blk = t; cls = 0;
    VR_ASSERT(r == ABT_SUCCESS, "allocation from a non-empty pool succeeds");
    t->type |= ABTI_THREAD_TYPE_THREAD;
    scan(); VR_ASSERT(bidx(blk) >= 0 && where[bidx(blk)] == -1, "an allocated block is in no pool");
    ABTI_mem_free_thread(&G, free_id, t);
#elif KIND == 1
    ABTI_ythread *y; int r = ABTI_mem_alloc_ythread_default(&G, alloc_id, &y); blk = y; cls = 1;
    VR_ASSERT(r == ABT_SUCCESS, "allocation from a non-empty pool succeeds");
    y->thread.type |= ABTI_THREAD_TYPE_THREAD | ABTI_THREAD_TYPE_YIELDABLE;
    scan(); VR_ASSERT(bidx(blk) >= 0 && where[bidx(blk)] == -1, "an allocated block is in no pool");
    ABTI_mem_free_thread(&G, free_id, &y->thread);
#elif KIND == 2
    ABTI_ythread *y; int r = ABTI_mem_alloc_ythread_mempool_desc(&G, alloc_id, 256, userstack + 256, &y); blk = y; cls = 0;
    VR_ASSERT(r == ABT_SUCCESS, "allocation from a non-empty pool succeeds");
    y->thread.type |= ABTI_THREAD_TYPE_THREAD | ABTI_THREAD_TYPE_YIELDABLE;
    scan(); VR_ASSERT(bidx(blk) >= 0 && where[bidx(blk)] == -1, "an allocated block is in no pool");
    ABTI_mem_free_thread(&G, free_id, &y->thread);
#elif KIND == 4
    static ABTI_pool PLX; static ABTI_ythread SCHX; static int ran; 
    ABTI_thread *t; int r = ABTI_mem_alloc_nythread(alloc_id, &t); blk = t; cls = 0;
    VR_ASSERT(r == ABT_SUCCESS, "allocation from a non-empty pool succeeds");
    __CPROVER_assume(f <= 1);                                   /* the popping agent is a stream's scheduler */
    t->type |= ABTI_THREAD_TYPE_THREAD; t->state.val = ABT_THREAD_STATE_READY; t->request.val = ABTI_THREAD_REQ_CANCEL; t->p_keytable.val = NULL;
    PLX.is_builtin = ABT_TRUE; t->p_pool = &PLX; ABTI_unit_init_builtin(t); t->f_thread = NULL; t->p_parent = NULL;
    { int l = nondet_int(); __CPROVER_assume(l >= 0 && l <= 2); t->p_last_xstream = l == 0 ? NULL : l == 1 ? &ES0 : &ES1; if ((l == 1 && f == 1) || (l == 2 && f == 0)) ran = 1; }
    scan(); VR_ASSERT(bidx(blk) >= 0 && where[bidx(blk)] == -1, "an allocated block is in no pool");
    { ABTI_xstream *px = f == 0 ? &ES0 : &ES1; px->p_thread = &SCHX.thread; SCHX.thread.type = ABTI_THREAD_TYPE_THREAD | ABTI_THREAD_TYPE_YIELDABLE | ABTI_THREAD_TYPE_MAIN_SCHED;
      lp_ABTI_local = (ABTI_local *)px; ABTI_ythread_schedule(&G, &px, t); }
    if (ran) VR_WITNESS("the cancelled unit last ran on the OTHER stream");
#else
    int r = ABTI_mem_alloc_desc(alloc_id, &blk); cls = 0;
    VR_ASSERT(r == ABT_SUCCESS, "allocation from a non-empty pool succeeds");
    scan(); VR_ASSERT(bidx(blk) >= 0 && where[bidx(blk)] == -1, "an allocated block is in no pool");
    ABTI_mem_free_desc(&G, free_id, blk);
#endif
    scan();
    int b = bidx(blk);
    VR_ASSERT(b >= 0 && where[b] >= 0, "a freed block is back in a pool");
    if (b >= 0 && where[b] >= 0) {
        VR_ASSERT((where[b] & 1) == cls, "a block returns to a pool of its own class (descriptor vs stack)");
        VR_ASSERT(where[b] == (f == 0 ? 0 : f == 1 ? 2 : 4) + cls, "a block is returned to the freeing stream's own pool, or to the global pool for external threads");
    }
    for (int i = 0; i < NB; i++) if (i != b) VR_ASSERT(where[i] == i / 2, "other blocks stay where they were");
    monitor_on = 0;
    VR_ASSERT(!bad_lock, "a global (*_ext) pool is modified only while ITS OWN lock is held (two different locks around one pool do not exclude each other)");
    VR_ASSERT(G.mem_pool_desc_lock.val.val == 0 && G.mem_pool_stack_lock.val.val == 0, "global pool locks released");
#if KIND != 4
    if (f == 2) VR_WITNESS("freed by an external thread into the global pool");
#endif
    if (f == 1) VR_WITNESS("freed on another stream");
    return 0;
}
