/* C15-O3: the lock-free tagged-pointer LIFO (abti_sync_lifo.h) that carries buckets and pages of the memory pools.
 * Focus = the real ABTI_sync_lifo_push / ABTI_sync_lifo_pop, instruction by instruction.  At every atomic access of the focus
 * (the two halves of the non-atomic {pointer,tag} load, the 128-bit CAS) the solver may run COMPLETE real pushes/pops of
 * other agents; an agent that owns a popped element may scribble on its link word before pushing it back (the memory pool
 * reuses that word), which is exactly the ABA scenario the tag exists for.  The 128-bit CAS instruction (cmpxchg16b, inline
 * assembly in the real code) is modelled: atomic compare-and-swap of the 16 bytes, and -- being "weak" -- it may fail
 * spuriously (once).  Required: after every completed operation the real list equals the ghost stack (no element lost,
 * duplicated or cyclic), pop returns the ghost top, the tag changes with every successful update. */
#include <stdint.h>
#include <stddef.h>
#include "vr.h"
void vr_sp(void);
#define ABTD_ASM_INT128_CAS_H_INCLUDED
static int vr_in_env, vr_spurious_left = 1, vr_cas_ok, vr_cas_fail;
static inline int ABTD_asm_bool_cas_weak_int128(__int128 *var, __int128 oldv, __int128 newv)
{
    if (vr_in_env) {   /* an environment operation runs uninterrupted, so its CAS succeeds: asserted (not assumed); returning the
                        * constant lets cbmc see that the retry loop of an environment operation runs once */
        __CPROVER_assert(*var == oldv, "CAS of an uninterrupted operation succeeds"); *var = newv; vr_cas_ok++; return 1;
    }
    vr_sp();
    if (!vr_in_env && vr_spurious_left > 0 && nondet_bool()) { vr_spurious_left--; vr_cas_fail++; return 0; }
    if (*var == oldv) { *var = newv; vr_cas_ok++; return 1; }
    vr_cas_fail++;
    return 0;
}
#include "vr_hooks.h"
#include "abti.h"
#include "stub_io.h"
#ifndef NEL
#define NEL 4
#endif
#ifndef ENV_BUDGET
#define ENV_BUDGET 3
#endif
ABTI_global *gp_ABTI_global; ABTD_XSTREAM_LOCAL ABTI_local *lp_ABTI_local;
static ABTI_sync_lifo L;
static ABTI_sync_lifo_element E0, E1, E2, E3;
static ABTI_sync_lifo_element *const EP[4] = { &E0, &E1, &E2, &E3 };
static int owner[4];                 /* -1: in the LIFO; 0: owned by the focus agent; 1: owned by the environment */
static int g[4], gn;                 /* ghost stack of element indices, g[gn-1] = top */
static int env_left = ENV_BUDGET, env_ops, was_empty;
static int idx_of(ABTI_sync_lifo_element *p) { for (int i = 0; i < NEL; i++) if (p == EP[i]) return i; return -1; }
static ABTI_sync_lifo_element *some_elem(void) { int k = nondet_int(); return (k >= 0 && k < NEL) ? EP[k] : NULL; }

static void check_list(const char *unused)
{
    ABTI_sync_lifo_element *p = (ABTI_sync_lifo_element *)L.p_top.ptr;
    for (int d = gn - 1; d >= 0; d--) {
        VR_ASSERT(p == EP[g[d]], "LIFO content equals the sequence of completed pushes/pops (nothing lost, duplicated or reordered)");
        if (p != EP[g[d]]) return;
        p = p->p_next;
    }
    VR_ASSERT(p == NULL, "LIFO ends after its last element (no stale tail, no cycle)");
}
static void env_step(void)
{
    if (env_left <= 0) return;
    env_left--; env_ops++;
    vr_in_env = 1;
    if (nondet_bool()) {
        ABTI_sync_lifo_element *p = ABTI_sync_lifo_pop(&L);
        if (gn == 0) VR_ASSERT(p == NULL, "pop on an empty LIFO returns NULL");
        else { VR_ASSERT(p == EP[g[gn - 1]], "pop returns the most recently pushed element"); gn--; if (p) { int i = idx_of(p); if (i >= 0) owner[i] = 1; } }
    } else {
        int k = nondet_int(); __CPROVER_assume(k >= 0 && k < NEL && owner[k] == 1);
        EP[k]->p_next = some_elem();                 /* the owner used the block: its link word is garbage now */
        ABTI_sync_lifo_push(&L, EP[k]); owner[k] = -1; g[gn++] = k;
    }
    check_list(0);
    if (gn == 0) was_empty = 1;
    vr_in_env = 0;
}
void vr_sp(void) { if (vr_in_env) return; if (nondet_bool()) env_step(); }

int main(void)
{
    /* symbolic initial LIFO of n0 <= 2 elements (E0 on top of E1), arbitrary tag (wrap-around included) */
    int n0 = nondet_int(); __CPROVER_assume(n0 >= 0 && n0 <= 2);
    for (int i = 0; i < NEL; i++) owner[i] = nondet_bool() ? 1 : 0;
    L.p_top.tag = nondet_size_t();
    if (n0 == 0) L.p_top.ptr = NULL;
    else if (n0 == 1) { L.p_top.ptr = &E0; E0.p_next = NULL; owner[0] = -1; g[0] = 0; gn = 1; }
    else { L.p_top.ptr = &E0; E0.p_next = &E1; E1.p_next = NULL; owner[0] = owner[1] = -1; g[0] = 1; g[1] = 0; gn = 2; }
    size_t tag0 = L.p_top.tag;
    was_empty = (gn == 0);
#if OP == 0
    owner[3] = 0; E3.p_next = some_elem();
    ABTI_sync_lifo_push(&L, &E3);
    owner[3] = -1; g[gn++] = 3;
    check_list(0);
    VR_ASSERT(env_ops > 0 || L.p_top.tag == tag0 + 1, "an uncontended update advances the tag by one");
    if (env_ops >= 2 && vr_cas_fail >= 2) VR_WITNESS("push retried after two interfering operations");
#else
    ABTI_sync_lifo_element *r = ABTI_sync_lifo_pop(&L);
    /* a pop that returns an element linearises at its successful CAS (nothing runs between that and the return); a pop that
     * returns NULL linearises at its load of the top pointer: legal iff the LIFO was empty at some moment of the call */
    if (r == NULL) VR_ASSERT(was_empty, "pop returns NULL only if the LIFO was empty at some moment during the call");
    else { VR_ASSERT(gn > 0 && r == EP[g[gn - 1]], "pop returns the element on top at its linearisation point"); gn--; }
    check_list(0);
    if (r && env_ops >= 3 && vr_cas_fail >= 1) VR_WITNESS("pop survived an A-B-A sequence of the environment (pop, pop, push back) and retried");
    if (!r && env_ops >= 1) VR_WITNESS("pop found the LIFO emptied by the environment");
#endif
    return 0;
}
