/* C06-O1: blocked-counter algebra.  ULT0 (pool PL0) blocks through one of the suspend-type callbacks (real code), possibly
 * with a migration request to pool PL2 pending (served inside the callback, as the real code does), and is later resumed
 * with the real ABTI_ythread_resume_and_push.  Required: at every point each pool's num_blocked equals the number of
 * BLOCKED units associated with that pool -- in particular it is never negative and it is zero again once nothing is
 * blocked; the unit is pushed to the pool it is associated with. */
#include "vr_hooks.h"
#include "abti.h"
#include "world.h"
#include "stub_io.h"
struct tblk { ABTI_ktable_mem_header h; ABTI_ktable kt; char pad0[8]; ABTI_ktelem e0; char pad1[28]; uint32_t extflag; };
static struct tblk TB0; static ABTI_thread_mig_data MIG;
static ABTD_spinlock LOCK;
static struct { ABTI_ythread *a; void *b; } ARG;
static int negative_seen, terminated_seen;
static void env_step(void) {}
static void vr_after_switch(int k) {}
static void vr_stuck(const char *w) {}
void vr_check(void) { if (ULT0.thread.state.val == ABT_THREAD_STATE_TERMINATED) terminated_seen = 1; if (PL0.num_blocked.val < 0 || PL1.num_blocked.val < 0 || PL2.num_blocked.val < 0) negative_seen = 1; }
int main(void)
{
    world_init();
    G.key_table_size = 1;
    ES0.p_thread = &SCHED0.thread; ULT0.thread.state.val = ABT_THREAD_STATE_RUNNING; ULT0.thread.type |= ABTI_THREAD_TYPE_MIGRATABLE;
    LOCK.val.val = 1;
    int mig = nondet_bool();
    if (mig) {   /* a migration request to PL2 is pending when ULT0 blocks */
        TB0.h.is_from_mempool = ABT_TRUE; TB0.extflag = 1; TB0.kt.size = 1; TB0.kt.p_used_mem = &TB0; TB0.kt.p_extra_mem = &TB0.pad1; TB0.kt.extra_mem_size = 28;
        TB0.kt.p_elems[0].val = &TB0.e0; TB0.e0.key_id = ABTI_KEY_ID_MIGRATION; TB0.e0.value = &MIG; TB0.e0.f_destructor = NULL; TB0.e0.p_next.val = NULL;
        ULT0.thread.p_keytable.val = &TB0.kt; MIG.p_migration_pool.val = &PL2; MIG.f_migration_cb = NULL; ULT0.thread.request.val = ABTI_THREAD_REQ_MIGRATE;
    }
    /* a cancel request may be pending too: suspend-type switches are not cancellation points for the SUSPENDING unit (it would be
     * terminated and then marked BLOCKED) -- the request stays pending until the unit is scheduled again */
    int cancel = nondet_bool();
#if KIND <= 2 || KIND == 6 || KIND == 7
    if (cancel) ULT0.thread.request.val |= ABTI_THREAD_REQ_CANCEL;
#endif
    vr_in_init = 0;
#if KIND == 0
    ABTI_ythread_callback_suspend(&ULT0);
#elif KIND == 1
    ARG.a = &ULT0; ARG.b = &LOCK; ABTI_ythread_callback_suspend_unlock(&ARG);
#elif KIND == 2
    ARG.a = &ULT0; ARG.b = &ULT1; ABTI_ythread_callback_suspend_join(&ARG);
#elif KIND == 6
    /* resume_suspend_to: the caller blocks, the (blocked) target in the same or another pool is resumed in its place */
    { int same = nondet_bool(); ULT1.thread.p_pool = same ? &PL0 : &PL1; ULT1.thread.state.val = ABT_THREAD_STATE_RUNNING; (same ? &PL0 : &PL1)->num_blocked.val = 1; }
    ARG.a = &ULT0; ARG.b = &ULT1; ABTI_ythread_callback_resume_suspend_to(&ARG);
#elif KIND == 7
    { static ABTI_sched MS; MS.request.val = 0; ARG.a = &ULT0; ARG.b = &MS; ABTI_ythread_callback_suspend_replace_sched(&ARG); VR_ASSERT(MS.request.val & ABTI_SCHED_REQ_REPLACE, "the main scheduler is asked to replace itself"); }
#elif KIND >= 3 && KIND <= 5
    /* yield-type callbacks: the unit goes straight back to a pool -- the one it is associated with AFTER a pending
     * migration has been served (sp_push asserts that), and the pre-incremented counter of ABT_thread_yield_to is undone */
    ULT0.thread.state.val = ABT_THREAD_STATE_READY;
#if KIND == 3
    ABTI_ythread_callback_yield_user_yield(&ULT0);
#elif KIND == 4
    PL0.num_blocked.val = 1; ABTI_ythread_callback_thread_yield_to(&ULT0);
#elif KIND == 5
    ARG.a = &ULT0; ARG.b = &ULT1; ULT1.thread.p_pool = &PL1; PL1.num_blocked.val = 1; ABTI_ythread_callback_resume_yield_to(&ARG);
#endif
    VR_ASSERT(sp_in[0], "the yielding unit is back in a pool");
    VR_ASSERT(!mig || ULT0.thread.p_pool == &PL2, "a pending migration is served at the yield: the unit's next scheduling goes through the requested pool");
    VR_ASSERT(PL0.num_blocked.val == 0 && PL1.num_blocked.val == 0 && PL2.num_blocked.val == 0 && !negative_seen, "blocked counters balanced after the yield");
    if (mig) VR_WITNESS("yielded with a migration pending"); else VR_WITNESS("yielded");
#endif
#if KIND <= 2 || KIND == 6 || KIND == 7
    VR_ASSERT(!terminated_seen && (!cancel || (ULT0.thread.request.val & ABTI_THREAD_REQ_CANCEL)), "a unit that suspends with a cancel request pending is not terminated at that point; the request stays pending");
    if (cancel) VR_WITNESS("suspended with a cancel request pending");
    VR_ASSERT(ULT0.thread.state.val == ABT_THREAD_STATE_BLOCKED, "the unit is BLOCKED");
    ABTI_pool *assoc = ULT0.thread.p_pool;
    VR_ASSERT(!mig || assoc == &PL2, "a pending migration is served at the blocking point: the unit is now associated with the requested pool");
    VR_ASSERT(PL0.num_blocked.val + PL2.num_blocked.val == 1 && PL1.num_blocked.val == 0, "exactly one blocked unit is accounted for");
    VR_ASSERT(assoc->num_blocked.val == 1, "the blocked unit is counted in the pool it is associated with (the pool whose scheduler has to wait for it)");
    /* later: somebody resumes it (ABT_thread_resume / mutex unlock / cond signal ... all end here) */
    as_agent(1);
    ABTI_ythread_resume_and_push(lp_ABTI_local, &ULT0);
    VR_ASSERT(sp_in[0] && ULT0.thread.state.val == ABT_THREAD_STATE_READY, "resumed unit is READY in its pool");
    VR_ASSERT(PL0.num_blocked.val == 0 && PL1.num_blocked.val == 0 && PL2.num_blocked.val == 0, "every pool's blocked counter is zero once no unit is blocked");
    VR_ASSERT(!negative_seen, "a blocked counter is never negative");
    if (mig) VR_WITNESS("blocked with a migration pending, then resumed"); else VR_WITNESS("blocked and resumed");
#endif
    return 0;
}
