/* C06-O2: the scheduler's termination decision versus a blocked unit being resumed from another stream.
 * ES0's main scheduler SCH serves pool PL0 only (single consumer).  ULT0 is BLOCKED (suspended earlier, counted in
 * PL0.num_blocked); a finish request (ABT_xstream_join) is pending.
 *   VARIANT 0: focus = the real ABT_thread_resume(ULT0) issued from ES1 / an external thread; at every atomic instruction of
 *              it -- and at the moment the unit is handed to the pool -- ES0's scheduler may evaluate the real
 *              ABTI_sched_has_to_stop() completely.
 *   VARIANT 1: focus = the real ABTI_sched_has_to_stop(); the complete real resume may happen at any of its atomic
 *              instructions.
 * A "stop" decision while ULT0 has not terminated (it never runs here) means the stream would terminate and ULT0 would
 * be stranded in a pool nobody schedules. */
#include "vr_hooks.h"
#include "abti.h"
#include "world.h"
#include "stub_io.h"
static ABTI_sched SCH; static ABT_pool SPOOLS[1];
static int stop_decided, resumed, evals;
ABT_bool ABTI_sched_has_to_stop(ABTI_sched *p_sched);
static void eval_stop(void) { as_agent(0); evals++; if (ABTI_sched_has_to_stop(&SCH) == ABT_TRUE) stop_decided = 1; }
static void env_step(void)
{
    vr_env_noblock = 1;
#if VARIANT == 0
    if (evals < 2) eval_stop();
#else
    if (!resumed) { resumed = 1; as_agent(FROM_EXT ? -1 : 1); int r = ABT_thread_resume((ABT_thread)&ULT0); __CPROVER_assert(r == ABT_SUCCESS, "resume of a BLOCKED ULT succeeds"); }
#endif
    vr_env_noblock = 0;
}
void vr_push_hook(void) { if (!vr_in_init && vr_depth == 0 && VARIANT == 0 && nondet_bool()) { vr_depth++; env_step(); vr_depth--; } }
static void vr_after_switch(int k) {}
static void vr_stuck(const char *w) {}
int main(void)
{
    world_init();
    PL0.access = nondet_bool() ? ABT_POOL_ACCESS_MPSC : ABT_POOL_ACCESS_PRIV; PL0.num_scheds.val = 1;
    SCH.pools = SPOOLS; SPOOLS[0] = (ABT_pool)&PL0; SCH.num_pools = 1; SCH.used = ABTI_SCHED_MAIN; SCH.request.val = ABTI_SCHED_REQ_FINISH;
    ES0.p_main_sched = &SCH; ES0.p_thread = &SCHED0.thread;
    ULT0.thread.state.val = ABT_THREAD_STATE_BLOCKED; PL0.num_blocked.val = 1;       /* suspended earlier */
    vr_in_init = 0;
#if VARIANT == 0
    as_agent(FROM_EXT ? -1 : 1);
    int r = ABT_thread_resume((ABT_thread)&ULT0);
    VR_ASSERT(r == ABT_SUCCESS, "resume succeeds");
    VR_ASSERT(sp_in[0] && ULT0.thread.state.val == ABT_THREAD_STATE_READY, "the resumed ULT is READY in its pool");
    VR_ASSERT(PL0.num_blocked.val == 0, "blocked counter back to zero, never negative");
    if (evals > 0) VR_WITNESS("the scheduler evaluated its stop condition while the resume was in flight");
#else
    as_agent(0);
    ABT_bool stop = ABTI_sched_has_to_stop(&SCH);
    if (stop == ABT_TRUE) stop_decided = 1;
    if (resumed && stop == ABT_FALSE) VR_WITNESS("resume landed during the evaluation and kept the scheduler alive");
    if (!resumed) VR_ASSERT(stop == ABT_FALSE, "a blocked unit alone keeps the scheduler alive");
#endif
    VR_ASSERT(!stop_decided, "the scheduler never decides to stop while a unit of its pool is blocked, in flight, or ready");
    return 0;
}
