/* C12 (and C01-O2): one scheduler step and one revive, from symbolic unit states.
 * STEP 0  ABTI_ythread_schedule on a unit popped from the pool: ULT (never started / started and yielded earlier) or tasklet;
 *         cancel request pending or not (symbolic); a joiner ULT possibly blocked on it.  Without cancel: the unit is
 *         started/continued exactly once (ULT: context switch to it with its own function/argument; tasklet: its function
 *         is called exactly once with its argument, then TERMINATED).  With cancel: TERMINATED at this scheduling point,
 *         never run, joiner released exactly once.  Every state change follows the life-cycle relation.
 * STEP 1  ABT_thread_revive / ABT_task_revive of a TERMINATED named unit with arbitrary stale request bits / p_link:
 *         READY, request cleared, context re-initialised, new function/argument, pushed exactly once; then STEP 0 must
 *         run the new function exactly once (no stale cancellation, no stale joiner).  Non-terminated unit: rejected. */
#define VR_OWN_NORETURN_MODEL
#include "vr_hooks.h"
#include "abti.h"
#include "world.h"
#include "stub_io.h"
static int is_task, started0, runs, starts, bad_arg, bad_trans, last_state;
static char ARGOBJ, ARGOBJ2;
static void tf(void *a) { runs++; if (a != (void *)&ARGOBJ) bad_arg = 1; }
static void tf2(void *a) { runs++; if (a != (void *)&ARGOBJ2) bad_arg = 1; }
static void env_step(void) {}
static void vr_after_switch(int k) {}
static void vr_stuck(const char *w) {}
static int allowed(int a, int b)
{
    return (a == ABT_THREAD_STATE_READY && b == ABT_THREAD_STATE_RUNNING) || (a == ABT_THREAD_STATE_READY && b == ABT_THREAD_STATE_TERMINATED /* cancelled before it ran */) ||
           (a == ABT_THREAD_STATE_RUNNING && (b == ABT_THREAD_STATE_READY || b == ABT_THREAD_STATE_BLOCKED || b == ABT_THREAD_STATE_TERMINATED)) ||
           (a == ABT_THREAD_STATE_BLOCKED && (b == ABT_THREAD_STATE_READY || b == ABT_THREAD_STATE_RUNNING)) || (a == ABT_THREAD_STATE_TERMINATED && b == ABT_THREAD_STATE_READY /* revive */);
}
void vr_check(void) { int s = ULT1.thread.state.val; if (s != last_state) { if (!allowed(last_state, s)) bad_trans = 1; last_state = s; } }
/* context switch into the unit = "it runs now": count it, check whose function it would run */
void switch_fcontext(fcontext_t *n, fcontext_t *o) { starts++; __CPROVER_assert(n == &ULT1.ctx.ctx && started0, "continues the started ULT"); vr_check(); }
void init_and_switch_fcontext(fcontext_t *n, void (*f)(fcontext_t *), void *s, fcontext_t *o) { starts++; __CPROVER_assert(n == &ULT1.ctx.ctx && !started0 && s == ULT1.ctx.p_stacktop, "starts the never-started ULT on its own stack"); vr_check(); }
void jump_fcontext(fcontext_t *p) { __CPROVER_assert(0, "not expected"); __CPROVER_assume(0); }
void jump_with_call_fcontext(void *a, void (*f)(void *), fcontext_t *n) { __CPROVER_assert(0, "not expected"); __CPROVER_assume(0); }
void init_and_jump_fcontext(fcontext_t *a, void (*f)(fcontext_t *), void *s) { __CPROVER_assert(0, "not expected"); __CPROVER_assume(0); }
void init_and_switch_with_call_fcontext(void *c, void (*fc)(void *), fcontext_t *n, void (*f)(fcontext_t *), void *s, fcontext_t *o) { __CPROVER_assert(0, "not expected"); __CPROVER_assume(0); }
void init_and_jump_with_call_fcontext(void *c, void (*fc)(void *), fcontext_t *n, void (*f)(fcontext_t *), void *s) { __CPROVER_assert(0, "not expected"); __CPROVER_assume(0); }
static char USTACK[64];
static void sched_step(int expect_cancel, void (*f)(void *))
{
    ABTI_xstream *px = &ES0;
    runs = 0; starts = 0;
    ABTI_ythread_schedule(&G, &px, &ULT1.thread);
    vr_check();
    if (expect_cancel) {
        VR_ASSERT(ULT1.thread.state.val == ABT_THREAD_STATE_TERMINATED && runs == 0 && starts == 0, "a unit with a pending cancellation is TERMINATED at its scheduling point and never run");
    } else if (is_task) {
        VR_ASSERT(runs == 1 && !bad_arg && ULT1.thread.state.val == ABT_THREAD_STATE_TERMINATED, "a tasklet's function is called exactly once with its own argument, then the tasklet is TERMINATED");
        VR_ASSERT(ES0.p_thread == &SCHED0.thread, "the scheduler is current again after the tasklet");
    } else {
        VR_ASSERT(starts == 1 && runs == 0 && ULT1.thread.state.val == ABT_THREAD_STATE_RUNNING && ULT1.thread.f_thread == f, "a ULT is switched to exactly once, RUNNING, with its own function");
        VR_ASSERT(ULT1.thread.p_parent == &SCHED0.thread && ULT1.thread.p_last_xstream == &ES0, "parent and last stream recorded");
    }
}
int main(void)
{
    world_init();
    G.key_table_size = 1;
    ES0.p_thread = &SCHED0.thread;                     /* the scheduler of ES0 is running */
    is_task = nondet_bool(); started0 = nondet_bool(); if (is_task) started0 = 0;
    ULT1.thread.type = (is_task ? ABTI_THREAD_TYPE_THREAD : (ABTI_THREAD_TYPE_THREAD | ABTI_THREAD_TYPE_YIELDABLE)) | ABTI_THREAD_TYPE_NAMED;
    ULT1.thread.p_pool = &PL0; ULT1.thread.f_thread = tf; ULT1.thread.p_arg = &ARGOBJ; ULT1.thread.p_last_xstream = started0 ? &ES0 : NULL; ULT1.thread.p_parent = NULL;
    ULT1.ctx.ctx.dummy = started0 ? (void *)1 : NULL; ULT1.ctx.p_stacktop = USTACK + 64; ULT1.ctx.stacksize = 64; ULT1.ctx.p_link.val.val = NULL;
    sp_in[1] = 0;                                       /* popped by the scheduler */
#if STEP == 0
    int cancel = nondet_bool(), joiner = nondet_bool(); if (is_task) joiner = 0;
    ULT1.thread.state.val = ABT_THREAD_STATE_READY; last_state = ABT_THREAD_STATE_READY;
    ULT1.thread.request.val = cancel ? ABTI_THREAD_REQ_CANCEL : 0;
    if (joiner) { /* ULT2 suspended in ABT_thread_join(ULT1): request + link published */
        ULT1.thread.request.val |= ABTI_THREAD_REQ_JOIN; ULT1.ctx.p_link.val.val = &ULT2.ctx; ULT2.thread.state.val = ABT_THREAD_STATE_BLOCKED; PL2.num_blocked.val = 1; ES2.p_thread = &SCHED2.thread; }
    vr_in_init = 0; as_agent(0);
    sched_step(cancel, tf);
    if (cancel && joiner) { VR_ASSERT(sp_in[2] && ULT2.thread.state.val == ABT_THREAD_STATE_READY && PL2.num_blocked.val == 0, "cancellation releases the joiner exactly once"); VR_WITNESS("cancelled unit released its joiner"); }
    if (!cancel && joiner) VR_ASSERT(!sp_in[2] && ULT2.thread.state.val == ABT_THREAD_STATE_BLOCKED, "the joiner keeps waiting while the unit runs");
    if (!cancel && is_task) VR_WITNESS("tasklet ran once");
    if (!cancel && !is_task && !started0) VR_WITNESS("fresh ULT started");
#else
    /* a TERMINATED named unit with stale leftovers of its first life */
    int terminated = nondet_bool();
    ULT1.thread.state.val = terminated ? ABT_THREAD_STATE_TERMINATED : ABT_THREAD_STATE_RUNNING; last_state = ULT1.thread.state.val;
    ULT1.thread.request.val = nondet_uint() & (ABTI_THREAD_REQ_CANCEL | ABTI_THREAD_REQ_JOIN | ABTI_THREAD_REQ_MIGRATE);
    ULT1.ctx.p_link.val.val = nondet_bool() ? (void *)&ULT2.ctx : NULL; ULT1.ctx.ctx.dummy = nondet_bool() ? (void *)1 : NULL;
    vr_in_init = 0; as_agent(0);
    ABT_thread h = (ABT_thread)&ULT1;
    int r = is_task ? ABT_task_revive((ABT_pool)&PL0, tf2, &ARGOBJ2, &h) : ABT_thread_revive((ABT_pool)&PL0, tf2, &ARGOBJ2, &h);
    vr_check();
    if (!terminated) { VR_ASSERT(r != ABT_SUCCESS && !sp_in[1] && ULT1.thread.f_thread == tf, "reviving a unit that has not terminated is rejected and changes nothing"); VR_WITNESS("revive of a live unit rejected"); }
    else {
        VR_ASSERT(r == ABT_SUCCESS && sp_in[1] && ULT1.thread.state.val == ABT_THREAD_STATE_READY, "revived unit is READY and pushed exactly once");
        VR_ASSERT(ULT1.thread.request.val == 0, "no request of the first life survives the revive (no stale cancellation / join / migration)");
        VR_ASSERT(is_task || (ULT1.ctx.ctx.dummy == NULL && ULT1.ctx.p_link.val.val == NULL), "ULT context re-initialised: starts afresh, no stale joiner link");
        VR_ASSERT(ULT1.thread.f_thread == tf2 && ULT1.thread.p_arg == (void *)&ARGOBJ2, "new function and argument installed");
        /* ... and the next scheduling runs the new function exactly once */
        ABT_thread t = ABTI_pool_pop(&PL0, ABT_POOL_CONTEXT_OP_POOL_OTHER);
        VR_ASSERT(t == (ABT_thread)&ULT1, "the revived unit is popped");
        started0 = 0; ARGOBJ = 0;
        ULT1.thread.p_arg = &ARGOBJ2;
        { ABTI_xstream *px = &ES0; runs = 0; starts = 0; ABTI_ythread_schedule(&G, &px, &ULT1.thread); vr_check(); }
        if (is_task) { VR_ASSERT(runs == 1 && !bad_arg && ULT1.thread.state.val == ABT_THREAD_STATE_TERMINATED, "the revived tasklet runs the new function exactly once more"); VR_WITNESS("tasklet revived and run"); }
        else { VR_ASSERT(starts == 1 && ULT1.thread.state.val == ABT_THREAD_STATE_RUNNING, "the revived ULT is started exactly once more"); VR_WITNESS("ULT revived and started"); }
    }
#endif
    VR_ASSERT(!bad_trans, "every observable state change follows READY -> RUNNING -> (BLOCKED -> READY -> RUNNING)* -> TERMINATED (-> READY by revive)");
    return 0;
}
