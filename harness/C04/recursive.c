/* C04-O3: recursive mutex, one step from an arbitrary consistent state (owner, nesting depth symbolic).
 * Inv: lock word held <=> owner != 0; nesting_cnt >= 0; nesting_cnt == 0 when free.  Non-blocking transitions only
 * (the blocking path is O1's subject): owner re-lock/trylock/unlock at ANY depth, non-owner trylock, lock of a free mutex,
 * and the static initialisers. */
#include "abti.h"
#include "vr.h"
#include "stub_io.h"
ABTI_global *gp_ABTI_global;
ABTD_XSTREAM_LOCAL ABTI_local *lp_ABTI_local;
static ABTI_global G;
static ABTI_xstream ESA, ESB;
static ABTI_ythread UA, UB;
void switch_with_call_fcontext(void *a, void (*f)(void *), fcontext_t *n, fcontext_t *o) { __CPROVER_assert(0, "blocking path not part of this step"); __CPROVER_assume(0); }
void init_and_switch_with_call_fcontext(void *c, void (*fc)(void *), fcontext_t *n, void (*f)(fcontext_t *), void *s, fcontext_t *o) { __CPROVER_assume(0); }
void ABTD_futex_wait_and_unlock(ABTD_futex_multiple *p, ABTD_spinlock *l) { __CPROVER_assume(0); }
void ABTD_futex_broadcast(ABTD_futex_multiple *p) {}
void ABTD_ythread_func_wrapper(ABTD_ythread_context *p) { __CPROVER_assume(0); }
void ABTI_ythread_callback_suspend_unlock(void *a) { __CPROVER_assume(0); }

int main(void)
{
    gp_ABTI_global = &G;
    ESA.p_thread = &UA.thread; ESB.p_thread = &UB.thread;
    UA.thread.type = UB.thread.type = ABTI_THREAD_TYPE_THREAD | ABTI_THREAD_TYPE_YIELDABLE;
    ABTI_thread_id idA = (ABTI_thread_id)&UA.thread, idB = (ABTI_thread_id)&UB.thread;
#if INIT == 1
    ABT_mutex_memory mem = ABT_RECURSIVE_MUTEX_INITIALIZER;
    ABTI_mutex *M = (ABTI_mutex *)ABT_MUTEX_MEMORY_GET_HANDLE(&mem);
    VR_ASSERT(sizeof(ABTI_mutex) <= sizeof(ABT_mutex_memory), "ABT_mutex_memory is large enough for the implementation");
    VR_ASSERT((M->attrs & ABTI_MUTEX_ATTR_RECURSIVE) && M->lock.val.val == 0 && M->nesting_cnt == 0 && M->owner_id == 0 && M->waiter_lock.val.val == 0 && M->waitlist.p_head == NULL, "static recursive initialiser = free recursive mutex");
    ABT_mutex_memory mem2 = ABT_MUTEX_INITIALIZER;
    ABTI_mutex *M2 = (ABTI_mutex *)ABT_MUTEX_MEMORY_GET_HANDLE(&mem2);
    VR_ASSERT(!(M2->attrs & ABTI_MUTEX_ATTR_RECURSIVE) && M2->lock.val.val == 0 && M2->waiter_lock.val.val == 0 && M2->waitlist.p_head == NULL, "static initialiser = free plain mutex");
#else
    static ABTI_mutex MM; ABTI_mutex *M = &MM;
    ABTI_mutex_init(M); M->attrs = ABTI_MUTEX_ATTR_RECURSIVE;
#endif
    /* arbitrary consistent state */
    int owner = nondet_int(); VR_ASSUME(owner >= 0 && owner <= 2);      /* 0 free, 1 = A, 2 = B */
    long depth = nondet_long(); VR_ASSUME(depth >= 0 && depth < 2147483647L);  /* outstanding re-locks beyond the first */
    if (owner == 0) depth = 0;
    M->owner_id = owner == 0 ? 0 : owner == 1 ? idA : idB;
    M->lock.val.val = owner != 0;
    M->nesting_cnt = (int)depth;
    VR_ASSERT((long)M->nesting_cnt == depth, "the nesting counter can represent every depth a program can reach");
    ABT_mutex h = (ABT_mutex)M;
    lp_ABTI_local = (ABTI_local *)&ESA;                                  /* the acting caller is A */
    int op = nondet_int(); VR_ASSUME(op >= 0 && op <= 3);
    int var = nondet_int(); VR_ASSUME(var >= 0 && var <= 2);            /* API variant: plain / low,se / high,de */
    int r;
    if (op == 0 || op == 1 || op == 3) {                                 /* lock / trylock / spinlock */
        if (op == 0 || op == 3) VR_ASSUME(owner != 2);                   /* would block: O1 */
        r = op == 0 ? (var == 0 ? ABT_mutex_lock(h) : var == 1 ? ABT_mutex_lock_low(h) : ABT_mutex_lock_high(h)) : op == 1 ? ABT_mutex_trylock(h) : ABT_mutex_spinlock(h);
        if (owner == 2) {
            VR_ASSERT(r == ABT_ERR_MUTEX_LOCKED, "trylock by a non-owner fails while the owner holds it");
            VR_ASSERT(M->owner_id == idB && (long)M->nesting_cnt == depth && M->lock.val.val, "failed trylock changes nothing");
            VR_WITNESS("non-owner trylock refused");
        } else {
            VR_ASSERT(r == ABT_SUCCESS, "lock succeeds for the owner or on a free mutex");
            VR_ASSERT(M->owner_id == idA && M->lock.val.val, "caller owns the mutex afterwards");
            VR_ASSERT((long)M->nesting_cnt == (owner == 1 ? depth + 1 : 0), "nesting depth counts re-locks exactly");
            if (owner == 1 && depth > 70000) VR_WITNESS("deep re-lock");
            if (owner == 0) VR_WITNESS("first lock"); if (op == 0 && var == 2 && owner == 1) VR_WITNESS("re-lock through lock_high");
        }
    } else {                                                             /* unlock by the owner A */
        VR_ASSUME(owner == 1);
        r = var == 0 ? ABT_mutex_unlock(h) : var == 1 ? ABT_mutex_unlock_se(h) : ABT_mutex_unlock_de(h);
        if (var == 1 && depth > 0) VR_WITNESS("inner unlock_se"); if (var == 2 && depth == 0) VR_WITNESS("outermost unlock_de");
        VR_ASSERT(r == ABT_SUCCESS, "unlock succeeds");
        if (depth > 0) { VR_ASSERT(M->owner_id == idA && M->lock.val.val && (long)M->nesting_cnt == depth - 1, "inner unlock only decrements: still owned and held"); if (depth > 70000) VR_WITNESS("deep unlock"); }
        else { VR_ASSERT(M->owner_id == 0 && M->lock.val.val == 0 && M->nesting_cnt == 0, "outermost unlock releases the mutex"); VR_WITNESS("outermost unlock"); }
    }
    VR_ASSERT(M->waiter_lock.val.val == 0, "waiter lock free");
    return 0;
}
