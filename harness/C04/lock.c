/* C04-O1: ABT_mutex_lock (and variants) as the focus operation under preemption-point scheduling.
 * Agents: A = focus (ULT0 on ES0, or an external thread), B = current holder (ULT1 on ES1 or external), C = ULT2 on ES2
 * doing trylock/unlock.  The solver places B's unlock and C's trylock/unlock (complete REAL calls) at any atomic
 * instruction of A's lock path, including while A is parked (ULT: suspended; external: asleep in futex). */
#include "vr_hooks.h"
#include "abti.h"
#include "world.h"
#include "stub_io.h"

static ABTI_mutex M;
static int b_pc, c_pc, holders, err_excl, b_holds, c_holds, a_holds;
#ifndef LOCKFN
#define LOCKFN ABT_mutex_lock
#endif
#ifndef UNLOCKFN
#define UNLOCKFN ABT_mutex_unlock
#endif
#if FOCUS_EXT
#define AGENT_A (-1)
#else
#define AGENT_A 0
#endif
#if HOLDER_EXT
#define AGENT_B (-1)
#else
#define AGENT_B 1
#endif

static void acquired(int *flag) { if (holders != 0) err_excl = 1; holders++; *flag = 1; }
static void env_step(void)
{
    int who = nondet_int();
    vr_env_noblock = 1;   /* every environment operation of this scenario is non-blocking: blocking paths inside them are pruned */
    if (who == 1 && b_pc == 0 && b_holds) {             /* B: unlock */
        as_agent(AGENT_B); holders--; b_holds = 0; b_pc = 1;
        int r = UNLOCKFN((ABT_mutex)&M); __CPROVER_assert(r == ABT_SUCCESS, "unlock succeeds");
    } else if (who == 2 && c_pc == 0) {                 /* C: trylock */
        as_agent(2);
        int was_free = (M.lock.val.val == 0);
        int r = ABT_mutex_trylock((ABT_mutex)&M);
        /* trylock is a single TAS: at that instant the ghost copy is exact unless a nested step intervened */
        if (vr_depth >= VR_MAXDEPTH) __CPROVER_assert((r == ABT_SUCCESS) == was_free, "trylock succeeds iff the mutex is free");
        if (r == ABT_SUCCESS) { acquired(&c_holds); c_pc = 1; }
    } else if (who == 2 && c_pc == 1) {                 /* C: unlock */
        as_agent(2); holders--; c_holds = 0; c_pc = 2;
        int r = ABT_mutex_unlock((ABT_mutex)&M); __CPROVER_assert(r == ABT_SUCCESS, "unlock succeeds");
    }
    vr_env_noblock = 0;
}
static void vr_after_switch(int k) { world_wait_and_resume(k); }
static void vr_stuck(const char *where)
{
    /* somebody sleeps and nobody acts any more.  Legitimate only if somebody still logically holds the mutex. */
    __CPROVER_assert(!(M.lock.val.val == 0), "lost wakeup: a locker sleeps although the mutex is free");
    __CPROVER_assert(!(holders == 0), "lost wakeup: a locker sleeps although no caller holds the mutex");
}

int main(void)
{
    world_init();
    ABTI_mutex_init(&M);
    int held = nondet_bool();
    if (held) { as_agent(AGENT_B); int r = ABT_mutex_trylock((ABT_mutex)&M); __CPROVER_assume(r == ABT_SUCCESS); holders = 1; b_holds = 1; }
    vr_in_init = 0;
    as_agent(AGENT_A);
    int r = LOCKFN((ABT_mutex)&M);
    VR_ASSERT(r == ABT_SUCCESS, "lock returns success");
    acquired(&a_holds);
    VR_ASSERT(!err_excl, "mutual exclusion: at most one holder at any acquisition");
    VR_ASSERT(M.lock.val.val != 0, "lock word held when lock() returns");
    VR_ASSERT(M.waiter_lock.val.val == 0, "waiter lock released");
#if FOCUS_EXT
    if (vr_futex_wakes > 0 && held) VR_WITNESS("external locker blocked in the futex and was woken");
#else
    if (vr_resumed[0] > 0) VR_WITNESS("ULT locker suspended and was resumed");
    VR_ASSERT(PL0.num_blocked.val == 0, "blocked counter of the locker's pool back to zero");
#endif
    if (!held) VR_WITNESS("uncontended acquisition");
    /* A unlocks: nobody may be left behind */
    holders--; a_holds = 0;
    r = UNLOCKFN((ABT_mutex)&M);
    VR_ASSERT(r == ABT_SUCCESS && M.waitlist.p_head == NULL, "unlock leaves no waiter queued");
    return 0;
}
