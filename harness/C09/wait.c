/* C09: eventuals and futures under preemption-point scheduling.
 * FOCUS 0: ABT_eventual_wait   1: ABT_future_wait   2: ABT_eventual_set   3: ABT_future_set (the last compartment)
 * by a ULT (FOCUS_EXT=0) or an external thread (1).  Pre-state symbolic: ready or not / counter, optionally one waiter
 * (blocked ULT1) already queued.  Environment (complete real calls by other agents, placed at any atomic instruction of
 * the focus and while it is parked): racing ABT_eventual_set / ABT_future_set calls with different values, and
 * ABT_eventual_test / ABT_future_test observers.  The harness pool asserts at every resume that the object is already
 * ready and carries the value (value before ready before wake-up), the future callback asserts it runs exactly once,
 * with all values, before the counter shows ready. */
#include "vr_hooks.h"
#include "abti.h"
#include "world.h"
#include "stub_io.h"
#include <string.h>
static ABTI_eventual EV; static uint64_t EVBUF;
static ABTI_future FU; static void *FARR[3];
static int nset_ok, nset_err, cb_calls, cb_bad, n_comp, sets_done, resumed_unready, test_early, env_sets_left = 2;
static uint64_t first_val; static int have_first; static int fu_attempts;
static void *fvals[3];
#if FOCUS_EXT
#define AGENT_A (-1)
#define AGENT_S 2
#else
#define AGENT_A 0
#define AGENT_S (-1)
#endif
static void fcb(void **arr)
{
    cb_calls++;
    if (FU.counter.val >= (size_t)n_comp) cb_bad = 1;              /* ready must not be observable before the callback has run */
    /* all set values are present: every compartment holds a distinct value handed to a set call */
    for (int i = 0; i < 3; i++) if (i < n_comp) { uintptr_t x = (uintptr_t)arr[i]; if (x < 0x100 || x >= 0x100 + (uintptr_t)fu_attempts) cb_bad = 1; for (int j = 0; j < 3; j++) if (j < i && arr[j] == arr[i]) cb_bad = 1; }
}
static void do_ev_set(void)
{
    uint64_t v = nondet_u64(); int was_ready = EV.ready;
    int r = ABT_eventual_set((ABT_eventual)&EV, &v, 8);
    if (r == ABT_SUCCESS) { nset_ok++; if (!have_first) { have_first = 1; first_val = v; } __CPROVER_assert(!was_ready || vr_depth > 1, "set succeeds only on a not-ready eventual"); }
    else { nset_err++; __CPROVER_assert(r == ABT_ERR_EVENTUAL, "a late set fails with ABT_ERR_EVENTUAL"); }
    __CPROVER_assert(EV.ready == ABT_TRUE, "after any set the eventual is ready");
    __CPROVER_assert(!have_first || EVBUF == first_val, "the value is the one of the FIRST set: a failed set changes nothing");
}
static void do_fu_set(void)
{
    void *v = (void *)(uintptr_t)(0x100 + fu_attempts); fu_attempts++;
    int r = ABT_future_set((ABT_future)&FU, v);
    if (r == ABT_SUCCESS) { sets_done++; __CPROVER_assert(sets_done <= n_comp, "at most num_compartments sets succeed"); }
    else { __CPROVER_assert(r == ABT_ERR_FUTURE, "a set beyond num_compartments fails with ABT_ERR_FUTURE"); __CPROVER_assert(FU.counter.val >= (size_t)n_comp, "a set fails only when the future is already full"); }
}
static void env_step(void)
{
    int who = nondet_int();
    vr_env_noblock = 1;
    as_agent(AGENT_S);
#if FOCUS == 0 || FOCUS == 2
    if (who == 1 && env_sets_left > 0) { env_sets_left--; do_ev_set(); }
    else if (who == 2) { void *pv = NULL; ABT_bool rd = ABT_FALSE; ABT_eventual_test((ABT_eventual)&EV, &pv, &rd); if (rd && !have_first) test_early = 1; if (rd && *(uint64_t *)pv != first_val) test_early = 1; }
    else if (who == 3 && FOCUS == 2 && ULT1.thread.state.val == ABT_THREAD_STATE_RUNNING && EV.lock.val.val == 0 && !EV.ready) {
        /* a waiter arrives and parks (model of the enqueue step; legal only while not ready) */
        ULT1.thread.state.val = ABT_THREAD_STATE_BLOCKED; PL1.num_blocked.val = 1; ES1.p_thread = &SCHED1.thread; ULT1.thread.p_next = NULL;
        if (EV.waitlist.p_head == NULL) EV.waitlist.p_head = &ULT1.thread; else EV.waitlist.p_tail->p_next = &ULT1.thread; EV.waitlist.p_tail = &ULT1.thread;
    }
#else
    if (who == 1 && env_sets_left > 0) { env_sets_left--; do_fu_set(); }
    else if (who == 2) { ABT_bool rd = ABT_FALSE; ABT_future_test((ABT_future)&FU, &rd); if (rd && n_comp > 0 && cb_calls == 0) test_early = 1;   /* ready observable only after the callback ran */ }
#endif
    vr_env_noblock = 0;
}
/* every resume of a parked waiter happens only when the object is already ready (and the callback has run) */
static void check_resume_order(void)
{
#if FOCUS == 0 || FOCUS == 2
    if (!(EV.ready == ABT_TRUE && have_first && EVBUF == first_val)) resumed_unready = 1;
#else
    if (!(FU.counter.val == (size_t)n_comp && cb_calls == 1)) resumed_unready = 1;
#endif
}
static void vr_after_switch(int k) { world_wait_and_resume(k); check_resume_order(); }
static void vr_stuck(const char *w)
{
#if FOCUS == 0 || FOCUS == 2
    __CPROVER_assert(!(EV.ready == ABT_TRUE), "lost wake-up: the eventual is ready but a waiter still sleeps");
#else
    __CPROVER_assert(!(FU.counter.val >= (size_t)n_comp), "lost wake-up: the future is ready but a waiter still sleeps");
#endif
}
void *memcpy(void *d, const void *s, size_t n) { for (size_t i = 0; i < n; i++) ((char *)d)[i] = ((const char *)s)[i]; return d; }

int main(void)
{
    world_init();
    EV.lock.val.val = 0; EV.value = &EVBUF; EV.nbytes = 8; ABTI_waitlist_init(&EV.waitlist);
    n_comp = nondet_int(); VR_ASSUME(n_comp >= 0 && n_comp <= 3);
    FU.lock.val.val = 0; FU.num_compartments = n_comp; FU.array = FARR; FU.p_callback = fcb; ABTI_waitlist_init(&FU.waitlist);
    int pre_ready = nondet_bool();
#if FOCUS == 0 || FOCUS == 2
    if (pre_ready) { as_agent(AGENT_S); do_ev_set(); }
#else
    int pre = nondet_int(); VR_ASSUME(pre >= 0 && pre <= n_comp);
    as_agent(AGENT_S); for (int i = 0; i < 3; i++) if (i < pre) do_fu_set();
    env_sets_left = n_comp - pre + 1; if (env_sets_left > 2) env_sets_left = 2;
#endif
    vr_in_init = 0;
    as_agent(AGENT_A);
#if FOCUS == 0
    void *pv = NULL;
    int r = ABT_eventual_wait((ABT_eventual)&EV, &pv);
    VR_ASSERT(r == ABT_SUCCESS, "wait succeeds");
    VR_ASSERT(EV.ready == ABT_TRUE && have_first, "wait returns only once the eventual is ready");
    VR_ASSERT(pv == &EVBUF && EVBUF == first_val, "the waiter reads the value that was set (first set wins)");
    if (!pre_ready && nset_err > 0) VR_WITNESS("waiter blocked, two setters raced, one failed");
    if (pre_ready) VR_WITNESS("wait on a ready eventual returns at once");
#elif FOCUS == 1
    int r = ABT_future_wait((ABT_future)&FU);
    VR_ASSERT(r == ABT_SUCCESS, "wait succeeds");
    VR_ASSERT(FU.counter.val == (size_t)n_comp, "future wait returns only when all compartments are set");
    VR_ASSERT(n_comp == 0 || cb_calls == 1, "the callback has run exactly once before any waiter returns");
    if (n_comp == 3 && pre < 3) VR_WITNESS("waiter blocked until the third set");
    if (n_comp == 0) VR_WITNESS("zero-compartment future: wait returns immediately");
#elif FOCUS == 2
    do_ev_set();
    if (sp_in[1]) VR_WITNESS("set resumed a waiter that arrived during the set");
    VR_ASSERT(ULT1.thread.state.val != ABT_THREAD_STATE_BLOCKED || EV.waitlist.p_head == NULL || 0, "no waiter left queued on a ready eventual");
    VR_ASSERT(EV.waitlist.p_head == NULL, "wait-list empty after set");
#else
    VR_ASSUME((int)FU.counter.val == n_comp - 1 || n_comp == 0);   /* the focus sets the last compartment (or n==0: must fail) */
    do_fu_set();
    VR_ASSERT(n_comp == 0 || FU.counter.val == (size_t)n_comp, "the future is full after the last set");
    if (n_comp > 0) VR_WITNESS("last compartment set by the focus");
#endif
    VR_ASSERT(!cb_bad && cb_calls <= 1, "future callback: at most once, with all values, before ready is observable");
    VR_ASSERT(!resumed_unready, "waiters are resumed only after the value/ready flag (and callback) are in place");
    VR_ASSERT(!test_early, "test never reports ready before the set (and reports the set value)");
    VR_ASSERT(EV.lock.val.val == 0 && FU.lock.val.val == 0, "object locks released");
    return 0;
}
