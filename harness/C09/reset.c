/* C09-O3: ABT_future_reset / ABT_eventual_reset from ANY state (one step): a future with n compartments of which k are set
 * (k symbolic, 0..n: not set at all, partially set, ready) becomes completely unset -- the next round needs all n sets again
 * and test reports not ready; a ready or unready eventual becomes unready. */
#include "abti.h"
#include "vr.h"
#include "stub_io.h"
#include "futures.c"
#include "eventual.c"
ABTI_global *gp_ABTI_global; ABTD_XSTREAM_LOCAL ABTI_local *lp_ABTI_local;
static ABTI_global G; static ABTI_future F; static ABTI_eventual E; static void *ARR[4];
int main(void)
{
    gp_ABTI_global = &G;
    size_t n = nondet_size_t(), k = nondet_size_t(); __CPROVER_assume(n >= 1 && n <= 4 && k <= n);
    F.lock.val.val = 0; F.num_compartments = n; F.counter.val = k; F.array = ARR; F.p_callback = NULL; ABTI_waitlist_init(&F.waitlist);
    int r = ABT_future_reset((ABT_future)&F);
    VR_ASSERT(r == ABT_SUCCESS && F.counter.val == 0, "after reset no compartment counts as set, whatever had been set before (the next round needs all n sets)");
    ABT_bool flag = ABT_TRUE; r = ABT_future_test((ABT_future)&F, &flag);
    VR_ASSERT(r == ABT_SUCCESS && flag == ABT_FALSE && F.lock.val.val == 0, "a reset future is not ready; lock released");
    if (k > 0 && k < n) VR_WITNESS("reset of a partially filled future");
    if (k == n) VR_WITNESS("reset of a ready future");
    E.lock.val.val = 0; E.ready = nondet_bool(); E.nbytes = 0; E.value = NULL; ABTI_waitlist_init(&E.waitlist);
    r = ABT_eventual_reset((ABT_eventual)&E);
    VR_ASSERT(r == ABT_SUCCESS && E.ready == ABT_FALSE && E.lock.val.val == 0, "a reset eventual is not ready");
    return 0;
}
