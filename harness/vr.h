/* common harness helpers (cbmc side) */
#ifndef VR_H
#define VR_H
#include <stdint.h>
#include <stddef.h>
int nondet_int(void);
unsigned nondet_uint(void);
_Bool nondet_bool(void);
char nondet_char(void);
unsigned char nondet_uchar(void);
long nondet_long(void);
unsigned long nondet_ulong(void);
uint64_t nondet_u64(void);
uint32_t nondet_u32(void);
size_t nondet_size_t(void);
void *nondet_ptr(void);
double nondet_double(void);
/* a property assertion: must be SUCCESS */
#define VR_ASSERT(c, msg) __CPROVER_assert((c), msg)
/* reachability witness: must come back FAILURE (vacuity guard), checked in the same solver run */
#define VR_WITNESS(msg) __CPROVER_assert(0, "WITNESS: " msg)
#define VR_WITNESS_IF(c, msg) __CPROVER_assert(!(c), "WITNESS: " msg)
#define VR_ASSUME(c) __CPROVER_assume(c)
#endif
