/* C13: migration requests and their handling (thread.c), one step each from symbolic states.
 * MODE 0  ABT_thread_migrate_to_pool: rejected for non-migratable units, main-scheduler ULTs and the unit's current pool;
 *         otherwise the target pool is stored BEFORE the request bit becomes visible (checked at every atomic instruction).
 * MODE 1  ABT_thread_migrate: target selection over 3 execution streams with symbolic states and main-scheduler pools:
 *         succeeds with a pool of some OTHER RUNNING stream when one exists whose scheduler offers a pool different from
 *         the unit's current pool, ABT_ERR_MIGRATION_NA otherwise.
 * MODE 2  ABTI_thread_handle_request_migrate (what every scheduling point runs for a pending request): the unit becomes
 *         associated with the requested pool, the callback is invoked exactly once with its argument, the request bit is
 *         cleared; a second request overwriting the target while the first is handled is served by the last value read.
 * The unit's migration record lives in its key table, pre-installed as the real code lays it out (see C16). */
#include "vr_hooks.h"
#include "abti.h"
#include "vr.h"
#include "stub_io.h"
struct tblk { ABTI_ktable_mem_header h; ABTI_ktable kt; char pad0[8]; ABTI_ktelem e0; char pad1[28]; uint32_t extflag; };
static struct tblk TB0;
static ABTI_thread_mig_data MIG;
#include "thread.c"
ABTI_global *gp_ABTI_global;
ABTD_XSTREAM_LOCAL ABTI_local *lp_ABTI_local;
static ABTI_global G;
static ABTI_xstream X0, X1, X2;
static ABTI_sched S0, S1, S2;
static ABTI_pool P0, P1, P2, P3;
static ABT_pool S0P[2], S1P[2], S2P[2];
static ABTI_ythread T;
static int cb_calls; static void *cb_arg_seen; static ABT_thread cb_thread_seen;
static void mig_cb(ABT_thread t, void *a) { cb_calls++; cb_arg_seen = a; cb_thread_seen = t; }
static int req_before_pool;
#if MODE == 1
#include <errno.h>
/* the snapshot array of ABT_thread_migrate: its allocation may fail (symbolic) */
static int alloc_fail, alloc_failed;
int posix_memalign(void **p, size_t al, size_t sz) { if (alloc_fail) { alloc_failed = 1; return ENOMEM; } void *q = malloc(sz); __CPROVER_assume(q != NULL); *p = q; return 0; }
#endif
/* user-defined target pool (MODE 2): unit creation and the unit map may fail (their own behaviour is C14's subject) */
static int units_made, units_freed, map_fail; static ABTI_ythread UNITOBJ;
static ABT_unit up_create_unit(ABT_pool p, ABT_thread t) { if (nondet_bool()) return ABT_UNIT_NULL; units_made++; return (ABT_unit)&UNITOBJ; }
static void up_free_unit(ABT_pool p, ABT_unit u) { units_freed++; }
int ABTI_unit_map_thread(ABTI_global *g, ABT_unit u, ABTI_thread *t) { if (nondet_bool()) { map_fail = 1; return ABT_ERR_MEM; } return ABT_SUCCESS; }
void vr_sp(void)
{
#if MODE == 0
    /* at every atomic instruction: a visible request implies the target pool is already stored */
    if ((T.thread.request.val & ABTI_THREAD_REQ_MIGRATE) && MIG.p_migration_pool.val == NULL) req_before_pool = 1;
#endif
}
int ABTI_sched_get_migration_pool(ABTI_sched *p_sched, ABTI_pool *src, ABTI_pool **pp)
{   /* sched.c: no get_migr_pool callback -> first pool (kept in sync with sched.c by the 'encodes' existence check) */
    if (p_sched->num_pools == 0) return ABT_ERR_MIGRATION_TARGET;
    *pp = (ABTI_pool *)p_sched->pools[0]; return ABT_SUCCESS;
}
static ABTI_pool *pool_of(int k) { return k == 0 ? &P0 : k == 1 ? &P1 : k == 2 ? &P2 : &P3; }

int main(void)
{
    gp_ABTI_global = &G; G.key_table_size = 1;
    /* the unit T lives in pool P0, last ran on X0 */
    T.thread.type = ABTI_THREAD_TYPE_THREAD | ABTI_THREAD_TYPE_YIELDABLE | ABTI_THREAD_TYPE_NAMED;
    if (nondet_bool()) T.thread.type |= ABTI_THREAD_TYPE_MIGRATABLE;
    if (nondet_bool()) T.thread.type |= ABTI_THREAD_TYPE_MAIN_SCHED;
    T.thread.p_pool = &P0; T.thread.p_last_xstream = &X0; T.thread.state.val = ABT_THREAD_STATE_RUNNING; T.thread.request.val = 0;
    P0.is_builtin = P1.is_builtin = P2.is_builtin = P3.is_builtin = ABT_TRUE;
    ABTI_unit_init_builtin(&T.thread);
    /* migration record pre-installed in the key table */
    TB0.h.p_next = NULL; TB0.h.is_from_mempool = ABT_TRUE; TB0.extflag = 1; TB0.kt.size = 1; TB0.kt.p_used_mem = &TB0; TB0.kt.p_extra_mem = &TB0.pad1; TB0.kt.extra_mem_size = 28;
    TB0.kt.p_elems[0].val = &TB0.e0; TB0.e0.key_id = ABTI_KEY_ID_MIGRATION; TB0.e0.value = &MIG; TB0.e0.f_destructor = thread_key_destructor_migration; TB0.e0.p_next.val = NULL;
    T.thread.p_keytable.val = &TB0.kt;
    MIG.p_migration_pool.val = NULL; MIG.f_migration_cb = nondet_bool() ? mig_cb : NULL; MIG.p_migration_cb_arg = &cb_calls;
    int migratable = (T.thread.type & ABTI_THREAD_TYPE_MIGRATABLE) != 0, mainsched = (T.thread.type & ABTI_THREAD_TYPE_MAIN_SCHED) != 0;
#if MODE == 0
    int k = nondet_int(); VR_ASSUME(k >= 0 && k <= 3);
    int r = ABT_thread_migrate_to_pool((ABT_thread)&T, (ABT_pool)pool_of(k));
    if (!migratable || mainsched || k == 0) {
        VR_ASSERT(r != ABT_SUCCESS, "request rejected for a non-migratable unit, a main-scheduler ULT or the unit's current pool");
        VR_ASSERT(T.thread.request.val == 0 && MIG.p_migration_pool.val == NULL, "a rejected request changes nothing");
        if (k == 0 && migratable && !mainsched) VR_WITNESS("same-pool request rejected");
    } else {
        VR_ASSERT(r == ABT_SUCCESS && (T.thread.request.val & ABTI_THREAD_REQ_MIGRATE) && MIG.p_migration_pool.val == (void *)pool_of(k), "request recorded: target pool stored and request bit set");
        VR_ASSERT(!req_before_pool, "the target pool is stored before the request becomes visible");
        VR_ASSERT(T.thread.p_pool == &P0, "the unit itself is not moved by the request");
        VR_WITNESS("request accepted");
    }
#elif MODE == 1
    /* three streams; X0 is the unit's own */
    X0.p_next = &X1; X1.p_next = &X2; X2.p_next = NULL; G.p_xstream_head = &X0; G.num_xstreams = 3;
    X0.p_main_sched = &S0; X1.p_main_sched = &S1; X2.p_main_sched = &S2;
    X0.state.val = ABT_XSTREAM_STATE_RUNNING;
    X1.state.val = nondet_bool() ? ABT_XSTREAM_STATE_RUNNING : ABT_XSTREAM_STATE_TERMINATED;
    X2.state.val = nondet_bool() ? ABT_XSTREAM_STATE_RUNNING : ABT_XSTREAM_STATE_TERMINATED;
    S0.pools = S0P; S1.pools = S1P; S2.pools = S2P; S0.num_pools = 1; S0P[0] = (ABT_pool)&P0;
    int a1 = nondet_int(), b1 = nondet_int(), a2 = nondet_int(), b2 = nondet_int(), n1 = nondet_int(), n2 = nondet_int();
    VR_ASSUME(a1 >= 0 && a1 <= 3 && b1 >= 0 && b1 <= 3 && a2 >= 0 && a2 <= 3 && b2 >= 0 && b2 <= 3 && n1 >= 1 && n1 <= 2 && n2 >= 1 && n2 <= 2);
    S1P[0] = (ABT_pool)pool_of(a1); S1P[1] = (ABT_pool)pool_of(b1); S1.num_pools = n1;
    S2P[0] = (ABT_pool)pool_of(a2); S2P[1] = (ABT_pool)pool_of(b2); S2.num_pools = n2;
    S0.get_migr_pool = S1.get_migr_pool = S2.get_migr_pool = NULL;
    VR_ASSUME(migratable && !mainsched);
    /* the request may be issued by the unit itself (running on X0), by a ULT of another stream, or by an external thread */
    { int who = nondet_int(); VR_ASSUME(who >= 0 && who <= 3); lp_ABTI_local = who == 0 ? (ABTI_local *)&X0 : who == 1 ? (ABTI_local *)&X1 : who == 2 ? (ABTI_local *)&X2 : NULL;
      X0.p_thread = &T.thread; static ABTI_ythread C1, C2; C1.thread.type = C2.thread.type = ABTI_THREAD_TYPE_THREAD | ABTI_THREAD_TYPE_YIELDABLE; X1.p_thread = &C1.thread; X2.p_thread = &C2.thread; }
    alloc_fail = nondet_bool();
    int r = ABT_thread_migrate((ABT_thread)&T);
    /* a stream is a usable destination if it is another RUNNING stream that does not already serve the unit's pool
     * (its scheduler then offers a different pool).  Streams that share the unit's current pool are no move at all. */
    int serves1 = (a1 == 0) || (n1 == 2 && b1 == 0), serves2 = (a2 == 0) || (n2 == 2 && b2 == 0);
    int ok1 = X1.state.val == ABT_XSTREAM_STATE_RUNNING && !serves1, ok2 = X2.state.val == ABT_XSTREAM_STATE_RUNNING && !serves2;
    if (alloc_failed) {
        VR_ASSERT(r == ABT_ERR_MEM && T.thread.request.val == 0, "failed allocation of the stream snapshot: ABT_ERR_MEM, nothing requested (C18)");
        VR_WITNESS("allocation failure inside ABT_thread_migrate");
    } else if (ok1 || ok2) {
        VR_ASSERT(r == ABT_SUCCESS, "ABT_thread_migrate picks some other running execution stream when one exists");
        void *tp = MIG.p_migration_pool.val;
        VR_ASSERT((T.thread.request.val & ABTI_THREAD_REQ_MIGRATE) && tp != (void *)&P0 && ((ok1 && tp == (void *)pool_of(a1)) || (ok2 && tp == (void *)pool_of(a2))), "the requested pool belongs to such a stream's main scheduler and differs from the current pool");
        if (!ok1 && ok2) VR_WITNESS("second candidate chosen");
    } else if (X1.state.val != ABT_XSTREAM_STATE_RUNNING && X2.state.val != ABT_XSTREAM_STATE_RUNNING) {
        VR_ASSERT(r == ABT_ERR_MIGRATION_NA && T.thread.request.val == 0, "no other running stream: ABT_ERR_MIGRATION_NA, nothing requested");
        VR_WITNESS("no candidate");
    }
    VR_ASSERT(G.xstream_list_lock.val.val == 0, "stream list lock released on every path, also when the allocation failed (otherwise every later create/free/migrate spins forever)");
#else
    int k = nondet_int(); VR_ASSUME(k >= 1 && k <= 3);
    int user_target = nondet_bool();
    if (user_target) { P3.is_builtin = ABT_FALSE; P3.required_def.p_create_unit = up_create_unit; P3.required_def.p_free_unit = up_free_unit; k = 3; }
    ABT_unit unit0 = T.thread.unit;
    MIG.p_migration_pool.val = pool_of(k); T.thread.request.val = ABTI_THREAD_REQ_MIGRATE;
    int r = ABTI_thread_handle_request_migrate(&G, NULL, &T.thread);
    if (r == ABT_SUCCESS) {
        VR_ASSERT(T.thread.p_pool == pool_of(k), "the unit is associated with the requested pool");
        VR_ASSERT((T.thread.request.val & ABTI_THREAD_REQ_MIGRATE) == 0, "request bit cleared");
        VR_ASSERT(cb_calls == (MIG.f_migration_cb ? 1 : 0), "migration callback invoked exactly once per performed migration");
        if (cb_calls) { VR_ASSERT(cb_arg_seen == (void *)&cb_calls && cb_thread_seen == (ABT_thread)&T, "callback gets the unit and its argument"); VR_WITNESS("callback ran"); }
        if (user_target) { VR_ASSERT(T.thread.unit == (ABT_unit)&UNITOBJ && units_made == 1 && units_freed == 0, "the unit handle now is the one created by the user-defined target pool"); VR_WITNESS("migrated into a user-defined pool"); }
        else VR_ASSERT(T.thread.unit == unit0, "built-in pools share the unit handle");
    } else {
        VR_ASSERT(user_target, "handling can fail only when a user-defined target pool fails to create or register a unit");
        VR_ASSERT(T.thread.p_pool == &P0 && T.thread.unit == unit0, "a migration that was not performed leaves the unit associated with its old pool");
        VR_ASSERT(cb_calls == 0, "the migration callback is not invoked for a migration that was not performed");
        VR_ASSERT(units_made == units_freed, "a unit created for the failed migration is given back to the pool");
        if (map_fail) VR_WITNESS("unit map registration failed after the unit had been created");
        else VR_WITNESS("the user-defined pool refused to create a unit");
    }
#endif
    return 0;
}
